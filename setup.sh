#!/bin/sh
# Offline setup after a fresh restore: Hypothesis into /venv if missing, then build both variants
# of /repo's working tree into /verif/.build (checks rebuild on their own whenever sources change).
set -e
cd "$(dirname "$0")"
/venv/bin/python -c "import hypothesis" 2>/dev/null || \
  /venv/bin/pip install --no-index --find-links /opt/veriftools/wheels hypothesis
/venv/bin/python -m vlib.build rel san
