"""Probe objects: HookKey (a totally ordered key whose comparisons call back into the harness),
Boom (the private exception injected into comparisons), Tracked (payload whose reference count
is exact: never interned, never immortal)."""


class Boom(Exception):
    """Injected comparison failure - deliberately not TypeError/KeyError, which the library
    legitimately translates."""


class Hook:
    """Comparison hook state shared by all HookKeys."""
    armed = False
    count = 0
    at = 0              # fire when count reaches this (0 = never)
    action = None       # callable()
    fired = False

    @classmethod
    def reset(cls, at=0, action=None):
        cls.count = 0
        cls.at = at
        cls.action = action
        cls.fired = False

    @classmethod
    def tick(cls):
        if not cls.armed:
            return
        cls.count += 1
        if cls.count == cls.at and cls.action is not None:
            cls.fired = True
            act = cls.action
            cls.armed = False       # the action itself may compare keys (loading states)
            try:
                act()
            finally:
                cls.armed = True


def arm(flag):
    Hook.armed = bool(flag)


class HookKey(object):
    __slots__ = ('n',)

    def __init__(self, n):
        self.n = n

    def __reduce__(self):
        return (HookKey, (self.n,))

    def __hash__(self):
        return hash(self.n)

    def __repr__(self):
        return 'HK(%r)' % (self.n,)

    def __lt__(self, o):
        if not isinstance(o, HookKey):
            return NotImplemented
        Hook.tick()
        return self.n < o.n

    def __gt__(self, o):
        if not isinstance(o, HookKey):
            return NotImplemented
        Hook.tick()
        return self.n > o.n

    def __le__(self, o):
        if not isinstance(o, HookKey):
            return NotImplemented
        Hook.tick()
        return self.n <= o.n

    def __ge__(self, o):
        if not isinstance(o, HookKey):
            return NotImplemented
        Hook.tick()
        return self.n >= o.n

    def __eq__(self, o):
        if not isinstance(o, HookKey):
            return NotImplemented
        Hook.tick()
        return self.n == o.n

    def __ne__(self, o):
        if not isinstance(o, HookKey):
            return NotImplemented
        Hook.tick()
        return self.n != o.n


class Tracked(object):
    """A value object with exact reference counting (C16)."""
    __slots__ = ('tag', '__weakref__')

    def __init__(self, tag):
        self.tag = tag

    def __reduce__(self):
        return (Tracked, (self.tag,))

    def __eq__(self, o):
        return isinstance(o, Tracked) and o.tag == self.tag

    def __ne__(self, o):
        return not self.__eq__(o)

    # ordered by tag (byValue() orders values)
    def __lt__(self, o):
        return self.tag < o.tag if isinstance(o, Tracked) else NotImplemented

    def __gt__(self, o):
        return self.tag > o.tag if isinstance(o, Tracked) else NotImplemented

    def __le__(self, o):
        return self.tag <= o.tag if isinstance(o, Tracked) else NotImplemented

    def __ge__(self, o):
        return self.tag >= o.tag if isinstance(o, Tracked) else NotImplemented

    def __hash__(self):
        return hash(self.tag)

    def __repr__(self):
        return 'T(%r)' % (self.tag,)


class TrackedKey(HookKey):
    """HookKey that is also weak-referencable; used where keys are reference-counted."""
    __slots__ = ('__weakref__',)

    def __reduce__(self):
        return (TrackedKey, (self.n,))

    def __repr__(self):
        return 'TK(%r)' % (self.n,)
