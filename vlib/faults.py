"""Fault-enumeration engine shared by C14 (the n-th key comparison raises) and C17 (the n-th
allocation of the C extension fails).

A case is ``{'cfg', 'build', 'probes'}``.  For every probe the faults it can suffer are counted on a
clone (N), then the probe is re-run on a fresh clone for every n in 1..N with the n-th fault
injected.  Oracle after every run: the injected exception reaches the caller; _check() and the
independent walk pass for the target and every operand; operands are unchanged; the target holds
its previous contents or the completed change (bulk operations: per element); a follow-up workload
agrees with the model; (C) reference counts of all probe objects equal the slots holding them.
"""
import gc

from . import families as F
from . import probes as P
from . import refs
from . import walker
from .runner import Violation, case_hash

NEWKEY = 1000            # key number used by the follow-up workload


# ----------------------------------------------------------------------------- fault drivers

class CmpFault:
    """the n-th comparison between probe keys raises Boom"""
    exc = P.Boom
    name = 'comparison'

    def __init__(self, w):
        pass

    def arm(self, n):
        if n:
            def act():
                raise P.Boom()
            P.Hook.reset(at=n, action=act)
        else:
            P.Hook.reset()
        P.arm(True)

    def disarm(self, n):
        P.arm(False)
        return P.Hook.count, P.Hook.fired


class AllocFault:
    """the n-th allocation made by the family's extension module fails (BTREES_VERIF hook)"""
    exc = MemoryError
    name = 'allocation'

    def __init__(self, w):
        self.mod = F.module(w.fam)
        if not hasattr(self.mod, '_verif_alloc_arm'):
            raise RuntimeError('extension built without BTREES_VERIF=1: no allocation hook')

    def arm(self, n):
        self.mod._verif_alloc_arm(n)

    def disarm(self, n):
        count = self.mod._verif_alloc_arm(0)
        return count, bool(n) and count >= n


# ----------------------------------------------------------------------------- the world of one case

class World:
    def __init__(self, cfg):
        self.fam, self.kind, self.impl = cfg['fam'], cfg['kind'], cfg['impl']
        self.sizes = cfg.get('sizes')
        self.is_map, self.is_tree = F.is_map(self.kind), F.is_tree(self.kind)
        self.okey = self.fam[0] == 'O'
        self.oval = self.is_map and self.fam[1] == 'O'
        self.klass = F.cls(self.fam, self.kind, self.impl)
        self.keys = {}          # n -> canonical key
        self.vals = {}          # token -> canonical value
        self.registry = []      # every probe object ever made (one reference each)
        self.nfresh = 0
        self.base_nodes = 0
        # stored mode (C17): every clone is committed to a mini-ZODB connection and swept from its cache just
        # before the fault driver is armed, so the probe starts on ghosts and the allocations made while nodes
        # are loaded *inside* the operation are part of the enumerated fault space
        self.census = cfg.get('census', True)    # count live node objects after every injection (observation only)
        self.stored = bool(cfg.get('stored'))
        self.conn = None
        self.stored_fallback = 0

    def K(self, n, fresh=False):
        if not self.okey:
            return F.dk(self.fam, n + 3 if self.fam[0] in 'UQf' else n)
        if fresh:
            k = P.TrackedKey(n)
            self.registry.append(k)
            self.nfresh += 1
            return k
        k = self.keys.get(n)
        if k is None:
            k = P.TrackedKey(n)
            self.keys[n] = k
            self.registry.append(k)
        return k

    def V(self, tok):
        if not self.is_map:
            return None
        if not self.oval:
            return float(tok) if self.fam[1] == 'F' else F.dv(self.fam, tok)
        v = self.vals.get(tok)
        if v is None:
            v = P.Tracked(('v', tok))
            self.vals[tok] = v
            self.registry.append(v)
        return v

    def live_nodes(self):
        """number of live Bucket/Set/BTree/TreeSet instances of the family (all four are gc-tracked)"""
        kinds = tuple(F.cls(self.fam, k, self.impl) for k in F.KINDS)
        n = 0
        for o in gc.get_objects():
            if type(o) in kinds:
                n += 1
        return n

    def extra(self):
        import collections
        ex = collections.Counter()
        for k in self.keys.values():
            ex[id(k)] += 1
        for v in self.vals.values():
            ex[id(v)] += 1
        return ex

    def vtok(self, v):
        if self.oval:
            return v.tag[1]
        return int(v) if self.fam[1] == 'F' else F.ev(self.fam, v)

    def kn(self, k):
        if self.okey:
            return k.n
        k = F.ek(self.fam, k)
        return k - 3 if self.fam[0] in 'UQf' else k

    def contents(self, t, is_map=None):
        is_map = self.is_map if is_map is None else is_map
        if is_map:
            return [(self.kn(k), self.vtok(v)) for k, v in t.items()]
        return [(self.kn(k), None) for k in t.keys()]

    def build(self, ops, plain=False):
        t = self._build(ops)
        if self.stored and not plain:
            from . import minizodb as Z
            self.conn = None
            c = Z.Connection(Z.Storage())
            c.add(t)
            c.commit()
            c.minimize()
            ok = True
            if self.is_tree:
                try:
                    t._check()
                    wk = walker.walk(t, self.is_map)
                    del wk
                except (AssertionError, walker.WalkError):
                    ok = False      # open finding F16: this shape does not survive commit + reload
            if ok:
                self.conn = c
            else:
                self.stored_fallback += 1
                del c
                t = self._build(ops)
        return t

    def sweep(self):
        if self.conn is not None:
            self.conn.minimize()

    def _build(self, ops):
        t = self.klass()
        for op in ops:
            if op[0] == 'set':
                t[self.K(op[1])] = self.V(op[2])
            elif op[0] == 'add':
                t.add(self.K(op[1]))
            else:
                k = self.K(op[1])
                if self.is_map:
                    t.pop(k, None)
                elif k in t:
                    t.remove(k)
        return t

    def other(self, form, keys, valtok=1, pairs=None):
        """an operand: (object, descriptor for audits or None)"""
        if pairs is None:
            pairs = [(a, valtok) for a in keys]
        if form == 'list':
            return [self.K(a) for a, b in pairs], None
        if form == 'pairs':
            return [(self.K(a), self.V(b)) for a, b in pairs], None
        if form == 'dict':
            return dict((self.K(a), self.V(b)) for a, b in pairs), None
        o = F.cls(self.fam, form, self.impl)()
        for a, b in pairs:
            if F.is_map(form):
                o[self.K(a)] = self.V(b)
            else:
                o.add(self.K(a))
        return o, (o, F.is_map(form), F.is_tree(form))


MUTATING = {'set', 'insert', 'setdefault', 'add', 'del', 'remove', 'discard', 'pop', 'popd', 'popitem', 'popmin',
            'update', 'ior', 'iand', 'isub', 'ixor', 'ctor'}
BULK = {'update', 'ior', 'iand', 'isub', 'ixor', 'ctor'}


class Plan:
    """What one probe does: the call, the expected final model, the operands it reads."""
    __slots__ = ('call', 'after', 'operands', 'elements', 'target_is_new', 'holder', 'fallback_ok', 'newobj')


def _plan(w, t, op, model):
    """Prepare the probe (operands are built here, before the hook is armed).  model: dict n -> vtok."""
    name = op[0]
    p = Plan()
    p.operands = []          # [(obj, is_map, is_tree, contents-before)]
    p.after = None           # dict for atomic mutating probes
    p.elements = None        # for bulk probes: list of (n, vtok) in processing order, and the mode
    p.target_is_new = False
    p.newobj = None          # a fresh container the probe fills (setstate): judged instead of the clone
    p.fallback_ok = False    # the call documents a fallback when the fault strikes (returns the right result)
    p.holder = []            # results kept until the audit is over are NOT wanted: stays empty

    def operand(desc):
        if desc is not None:
            p.operands.append(desc + (w.contents(desc[0], desc[1]),))

    if name in ('set', 'insert', 'setdefault', 'add'):
        n = op[1]
        k = w.K(n, op[-1])
        v = w.V(op[2]) if w.is_map else None
        after = dict(model)
        if name in ('set', 'add') or n not in model:
            after[n] = op[2] if w.is_map else None
        p.after = after
        if name == 'set':
            def call():
                t[k] = v
        elif name == 'insert':
            def call():
                return t.insert(k, v) if w.is_map else t.insert(k)
        elif name == 'setdefault':
            def call():
                return t.setdefault(k, v)
        else:
            def call():
                return t.add(k)
    elif name in ('del', 'remove', 'discard', 'pop', 'popd'):
        n = op[1]
        k = w.K(n, op[-1])
        after = dict(model)
        after.pop(n, None)
        p.after = after
        if name == 'del':
            def call():
                del t[k]
        elif name == 'remove':
            def call():
                t.remove(k)
        elif name == 'discard':
            def call():
                t.discard(k)
        elif name == 'pop':
            def call():
                t.pop(k)
        else:
            def call():
                t.pop(k, None)
    elif name in ('popitem', 'popmin'):
        after = dict(model)
        if model:
            after.pop(min(model))
        p.after = after

        def call():
            if name == 'popitem':
                t.popitem()
            else:
                t.pop()
    elif name in ('get', 'getitem', 'in', 'has_key'):
        k = w.K(op[1], op[-1])
        if name == 'get':
            def call():
                t.get(k)
        elif name == 'getitem':
            def call():
                t[k]
        elif name == 'in':
            def call():
                k in t
        else:
            def call():
                t.has_key(k)
    elif name == 'range':
        meth, a, b, xa, xb, how = op[1:7]
        ka = _bound(w, t, a)
        kb = _bound(w, t, b)

        def call():
            r = getattr(t, meth)(ka, kb, xa, xb)
            if how == 'list' or meth.startswith('iter'):
                list(r)
            elif how == 'len':
                len(r)
            else:
                if len(r):
                    r[0], r[-1]
    elif name in ('minKey', 'maxKey'):
        kb = _bound(w, t, op[1])

        def call():
            if kb is None:
                getattr(t, name)()
            else:
                getattr(t, name)(kb)
    elif name == 'algebra':
        fn, keys, form, swap = op[1:5]
        other, desc = w.other(form, keys)
        operand(desc)
        if fn in ('or', 'and', 'sub', 'xor'):
            import operator
            f = {'or': operator.or_, 'and': operator.and_, 'sub': operator.sub, 'xor': operator.xor}[fn]
            if desc is None:
                swap = False          # plain list on the left has no such operator
        else:
            f = F.fn(w.fam, fn, w.impl)
            if fn == 'difference' and desc is None:
                swap = False          # difference's first operand must be a BTrees object
        if swap:
            def call():
                f(other, t)
        else:
            def call():
                f(t, other)
    elif name == 'weighted':
        fn, keys, form, w1, w2, swap = op[1:7]
        other, desc = w.other(form, keys, valtok=2)
        operand(desc)
        f = F.fn(w.fam, fn, w.impl)
        if swap:
            def call():
                f(other, t, w1, w2)
        else:
            def call():
                f(t, other, w1, w2)
    elif name == 'isdisjoint':
        other, desc = w.other(op[2], op[1])
        operand(desc)

        def call():
            t.isdisjoint(other)
    elif name == 'update':
        if w.is_map:
            other, desc = w.other(op[2], None, pairs=[tuple(x) for x in op[1]])
            els = [tuple(x) for x in op[1]]
        else:
            other, desc = w.other(op[2], op[1])
            els = [(a, None) for a in op[1]]
        operand(desc)
        p.elements = ('add', els)

        def call():
            t.update(other)
    elif name in ('ior', 'iand', 'isub', 'ixor'):
        other, desc = w.other(op[2], op[1])
        operand(desc)
        p.elements = ({'ior': 'add', 'iand': 'keep', 'isub': 'remove', 'ixor': 'toggle'}[name],
                      [(a, None) for a in op[1]])
        import operator
        f = {'ior': operator.ior, 'iand': operator.iand, 'isub': operator.isub, 'ixor': operator.ixor}[name]

        def call():
            f(t, other)
    elif name == 'ctor':
        if w.is_map:
            other, desc = w.other(op[2], None, pairs=[tuple(x) for x in op[1]])
            els = [tuple(x) for x in op[1]]
        else:
            other, desc = w.other(op[2], op[1])
            els = [(a, None) for a in op[1]]
        operand(desc)
        p.target_is_new = True

        def call():
            w.klass(other)
    elif name == 'merge':
        leafk = F.cls(w.fam, F.leaf_kind(w.kind), w.impl)

        def state(ns, bump):
            ns = sorted(set(ns))
            if w.is_map:
                data = []
                for a in ns:
                    data.append(w.K(a))
                    data.append(w.V((a + bump) % 3 if bump and a % 2 else a % 3))
                return (tuple(data),)
            return (tuple(w.K(a) for a in ns),)
        so, sc, sn = state(op[1], 0), state(op[2], 0), state(op[3], op[5])
        if op[4] == 'tree' and w.is_tree:
            so, sc, sn = ((so,),), ((sc,),), ((sn,),)
            target = w.klass
        else:
            target = leafk
        from BTrees.Interfaces import BTreesConflictError
        p.target_is_new = True          # the merge works on states; the clone is not involved

        def call():
            try:
                target()._p_resolveConflict(so, sc, sn)
            except BTreesConflictError:
                pass
    elif name == 'pickle':
        import pickle
        proto = op[1]
        p.target_is_new = True

        def call():
            pickle.loads(pickle.dumps(t, proto))
    elif name == 'copy':
        import copy
        p.target_is_new = True

        def call():
            copy.copy(t)
    elif name == 'setstate':
        src = w.build(w.current_build, plain=True)       # a second clone: its nodes become the new container's
        state = src.__getstate__()
        del src
        x = w.klass()
        p.newobj = x
        p.after = dict(model)

        def call():
            x.__setstate__(state)
    elif name == 'multiunion':
        mu = F.fn(w.fam, 'multiunion', w.impl)
        base, count, step, extras, with_t = op[1:6]
        nums = list(range(base, base + count * step, step))
        if op[6]:
            nums.reverse()
        operands = [[w.K(a) for a in nums]] + [w.K(a) for a in extras]
        expect = set(nums) | set(extras)
        if with_t:
            operands.insert(len(operands) // 2, t)
            expect |= set(model)
        if extras:
            # an exact Set (multiunion appends its keys wholesale) right after the walked operands, and a TreeSet
            # (walked with the library's cursor) before a bare integer
            so = F.cls(w.fam, 'Set', w.impl)([w.K(a) for a in extras])
            to = F.cls(w.fam, 'TreeSet', w.impl)([w.K(a) for a in extras[:2]])
            operands.insert(min(2, len(operands)), so)
            operands.insert(1, to)
        expect = sorted(expect)
        p.fallback_ok = True
        p.target_is_new = True

        def call():
            r = mu(operands)
            got = [w.kn(k) for k in r]
            if got != expect:
                raise Violation('multiunion returned %r..., expected %r...' % (got[:12], expect[:12]),
                                {'what': 'multiunion-result', 'impl': w.impl})
    else:
        raise ValueError(op)
    p.call = call
    return p


def _bound(w, t, tok):
    """a range bound: None, a key number, or {'edge': i, 'last': bool} = the first / last key of the i-th leaf
    of the clone (the bounds at which a search has to step to a neighbouring leaf)"""
    if tok is None:
        return None
    if isinstance(tok, dict):
        if w.is_tree:
            wk = walker.walk(t, w.is_map, check=False)
            lvs = [lf.keys for lf in wk.leaves if lf.keys]
            del wk
        else:
            ks = list(t.keys())
            lvs = [ks] if ks else []
        if not lvs:
            return w.K(0)
        lf = lvs[tok['edge'] % len(lvs)]
        return lf[-1] if tok.get('last') else lf[0]
    return w.K(tok)


def _run_probe(w, build, op, n, ctx, desc, fault):
    """Build a clone, run the probe with the n-th fault injected (n = 0: count only).
    Returns (faults counted, outcome class, state)."""
    name = op[0]
    sig = {'impl': w.impl, 'kind': w.kind, 'op': name, 'valcode': w.fam[1], 'fault': fault.name,
           'stored': w.conn is not None}
    nodes0 = w.base_nodes
    t = w.build(build)
    w.current_build = build
    model = dict(w.contents(t))
    plan = _plan(w, t, op, model)
    outcome = None
    err = None
    w.sweep()
    fault.arm(n)
    try:
        plan.call()
        outcome = 'returned'
    except fault.exc:
        outcome = 'boom'
    except (KeyError, ValueError, TypeError, MemoryError, P.Boom, SystemError, IndexError) as e:
        outcome = 'exc:' + type(e).__name__
        err = repr(e)
    finally:
        count, fired = fault.disarm(n)
    del plan.call
    if n == 0:
        if outcome == 'exc:IndexError' and ctx.known({'impl': w.impl, 'kind': w.kind, 'call': name, 'empty': not model,
                                                      'got': "exc:'IndexError'"}):
            outcome = 'exc:ValueError'      # open finding F21 (Python leaf minKey()/maxKey() on an empty leaf)
        if outcome == 'boom' or (outcome.startswith('exc:') and outcome not in ('exc:KeyError', 'exc:ValueError')):
            raise Violation('%s: fault-free run raised %s' % (desc, err or fault.exc.__name__),
                            dict(sig, what='faultfree-exception'))
    elif not fired:
        outcome = 'not_fired'
    elif outcome != 'boom':
        if outcome == 'returned' and plan.fallback_ok:
            outcome = 'fallback'
        else:
            ctx.mismatch('%s: the %d-th %s failed, but the call %s instead of passing %s on'
                         % (desc, n, fault.name, 'returned normally' if outcome == 'returned' else 'raised ' + str(err),
                            fault.exc.__name__),
                         dict(sig, what='swallowed', got=outcome))
    # ---- soundness of the target and of every operand
    conts = [(t, w.is_map, w.is_tree)]
    for o, om, ot, before in plan.operands:
        conts.append((o, om, ot))
        now = w.contents(o, om)
        if now != before:
            ctx.mismatch('%s: an operand that is only read changed: %r -> %r' % (desc, before, now),
                         dict(sig, what='operand-changed'))
    for o, om, ot in conts:
        if ot:
            try:
                o._check()
                wk = walker.walk(o, om)
                del wk
            except (AssertionError, walker.WalkError) as e:
                ctx.mismatch('%s: container not sound afterwards: %s' % (desc, e),
                             dict(sig, what='unsound', detail=_unsound_detail(e, outcome)), recoverable=False)
    # ---- contents: previous, or the completed change
    target = t
    if plan.newobj is not None:
        target = plan.newobj
        conts.append((target, w.is_map, w.is_tree))
        if dict(w.contents(t)) != model:
            ctx.mismatch('%s: the source container changed' % desc, dict(sig, what='operand-changed'))
        model = {}
        if w.is_tree:
            try:
                target._check()
                wk = walker.walk(target, w.is_map)
                del wk
            except (AssertionError, walker.WalkError) as e:
                ctx.mismatch('%s (fault %d): the new container is not sound afterwards: %s' % (desc, n, e),
                             dict(sig, what='unsound'), recoverable=False)
    now = dict(w.contents(target))
    if list(now) != sorted(now) or len(now) != len(target):
        ctx.mismatch('%s: keys out of order or len() wrong: %r len %d' % (desc, list(now), len(target)),
                     dict(sig, what='order'), recoverable=False)
    state = _judge(w, name, plan, model, now, outcome)
    if state is None:
        ctx.mismatch('%s (fault %d of the call): partial change: contents before %r, now %r, '
                     'completed change would be %r' % (desc, n, sorted(model.items()), sorted(now.items()),
                                                       sorted(plan.after.items()) if plan.after is not None else plan.elements),
                     dict(sig, what='partial'), recoverable=False)
    # ---- reference counts (C): every probe object is held exactly by the slots that show it
    if w.audit_refs:
        bad = refs.audit(w.registry, conts, w.extra(), lazy_gc=True)
        if bad:
            ctx.mismatch('%s (fault %d): reference counts disagree with the structures: %s '
                         '(object, references beyond the harness, slots found)' % (desc, n, bad[:4]),
                         dict(sig, what='refcount', leak=bad[0][1] > bad[0][2]), recoverable=False)
    # ---- later operations behave normally
    if not plan.target_is_new:
        _followup(w, target, now, ctx, desc, sig)
        if w.conn is not None and target is t:
            _commit_and_reload(w, t, ctx, desc, sig, n)
    o = before = wk = target = None
    del conts, plan
    del t
    if w.audit_refs:
        bad = refs.audit(w.registry, [], w.extra(), lazy_gc=True)
        if bad:
            ctx.mismatch('%s (fault %d): after destroying every container references remain: %s'
                         % (desc, n, bad[:4]), dict(sig, what='refcount-end', leak=True), recoverable=False)
        if not bad and w.census:
            nodes1 = w.live_nodes()
            if nodes1 != nodes0:
                gc.collect()
                nodes1 = w.live_nodes()
            if nodes1 != nodes0:
                # A leaked node that holds user objects is caught by the reference audit above.  One that
                # holds none (an empty leaf, integer keys) is a plain memory leak on an error path, which
                # none of the properties forbids: it is counted in the evidence, not reported.
                ctx.count('observed:node_objects_leaked_without_user_objects:' + name, nodes1 - nodes0)
                w.base_nodes = nodes1
    return count, outcome, state


def _unsound_detail(e, outcome):
    """coarse class of a soundness failure, for the known-findings signatures"""
    msg = str(e)
    if outcome == 'boom' and ('Bucket length < 1' in msg or 'next pointer is damaged' in msg or 'firstbucket' in msg):
        return 'unlink-incomplete'      # an emptied bucket is still in the chain / in its parent
    return 'other'


def _judge(w, name, plan, before, now, outcome):
    """'before' | 'after' | 'between' (bulk) | None (partial change)"""
    if plan.target_is_new:
        return 'before'
    if plan.elements is None:
        if now == before:
            if outcome == 'returned' and plan.after is not None and plan.after != before:
                return None
            return 'before'
        if plan.after is not None and now == plan.after:
            return 'after'
        return None
    mode, els = plan.elements
    # bulk: per element atomic, contents between before and the completed change
    ns = [a for a, b in els]
    if mode == 'add':
        final = dict(before)
        for a, b in els:
            final[a] = b
        if outcome == 'returned':
            return 'after' if now == final else None
        ok = all(k in now for k in before) and all(k in final for k in now)
        for k, v in now.items():
            if k in before and v == before[k]:
                continue
            if v not in [b for a, b in els if a == k]:
                ok = False
        if not ok:
            return None
        return 'after' if now == final else ('before' if now == before else 'between')
    if mode == 'remove':
        final = dict((k, v) for k, v in before.items() if k not in ns)
    elif mode == 'keep':
        final = dict((k, v) for k, v in before.items() if k in ns)
    else:
        final = dict(before)
        for a in set(ns):
            if a in final:
                del final[a]
            else:
                final[a] = None
    if outcome == 'returned':
        return 'after' if now == final else None
    lo = set(before) & set(final)
    hi = set(before) | set(final)
    if not (lo <= set(now) <= hi):
        return None
    return 'after' if now == final else ('before' if now == before else 'between')


def _commit_and_reload(w, t, ctx, desc, sig, n):
    """stored mode: whatever the failed call and the follow-up workload did to the container was announced to the data
    manager - a commit now, and a fresh reader, reproduce what the writer sees (C04's oracle under an injected
    fault: a node that changed on the way to the failure but did not register is written nowhere)"""
    from . import minizodb as Z
    if w.is_tree:
        wk = walker.walk(t, w.is_map, check=False)
        f16 = walker.f16_pending(wk)
        del wk
        if f16:
            return          # open finding F16: this shape does not survive a commit, fault or no fault
    want = w.contents(t)
    try:
        w.conn.commit()
        r = Z.Connection(w.conn.storage)
        rt = r.get(t._p_oid)
        got = w.contents(rt)
        if w.is_tree:
            rt._check()
            wk = walker.walk(rt, w.is_map)
            del wk
    except (AssertionError, walker.WalkError, KeyError, TypeError, ValueError, RuntimeError, SystemError, IndexError) as e:
        ctx.mismatch('%s (fault %d): after the call, a follow-up workload and a commit, a fresh reader cannot use the stored '
                     'container: %s: %s' % (desc, n, type(e).__name__, e), dict(sig, what='stored-unusable'), recoverable=False)
        return
    if got != want:
        ctx.mismatch('%s (fault %d): after the call, a follow-up workload and a commit, a fresh reader sees %r, the writer %r '
                     '(a node changed without registering)' % (desc, n, got, want), dict(sig, what='stored-differs'),
                     recoverable=False)


def _followup(w, t, now, ctx, desc, sig):
    m = dict(now)

    def same(stage):
        got = dict(w.contents(t))
        if got != m or list(got) != sorted(got):
            raise Violation('%s: follow-up workload (%s): contents %r, model %r'
                            % (desc, stage, sorted(got.items()), sorted(m.items())), dict(sig, what='followup'))
    try:
        for n, v in sorted(m.items()):
            k = w.K(n)
            if k not in t:
                raise Violation('%s: follow-up: stored key %d not found' % (desc, n), dict(sig, what='followup'))
            if w.is_map and w.vtok(t[k]) != v:
                raise Violation('%s: follow-up: wrong value under key %d' % (desc, n), dict(sig, what='followup'))
        for n in (NEWKEY, -1, 12):
            k = w.K(n)
            if w.is_map:
                t[k] = w.V(3)
                m[n] = 3
            else:
                t.add(k)
                m[n] = None
            same('insert %d' % n)
        for n in (sorted(m)[0], sorted(m)[len(m) // 2], NEWKEY):
            if n in m:
                k = w.K(n)
                if w.is_map:
                    del t[k]
                else:
                    t.remove(k)
                del m[n]
                same('delete %d' % n)
        if w.is_tree:
            t._check()
            walker.walk(t, w.is_map)
    except Violation:
        raise
    except (AssertionError, walker.WalkError, KeyError, TypeError, ValueError, RuntimeError, SystemError) as e:
        raise Violation('%s: follow-up workload failed: %r' % (desc, e), dict(sig, what='followup'))


def merge_enum_cases(cfg, universe=3, chunk=48):
    """Bounded-exhaustive conflict-merge probes for one configuration: EVERY triple (original, committed, new) of
    subsets of a small key universe (mappings: with and without a value change on the new side), as leaf states and -
    for tree kinds - wrapped as one-leaf tree states.  Cases of `chunk` probes each; the fault index space of every
    probe is then enumerated by run_case as usual."""
    U = list(range(universe))
    subsets = [[U[i] for i in range(universe) if m >> i & 1] for m in range(1 << universe)]
    is_map = F.is_map(cfg['kind'])
    forms = ['leaf', 'tree'] if F.is_tree(cfg['kind']) else ['leaf']
    probes = []
    for old in subsets:
        for com in subsets:
            for new in subsets:
                for bump in ((0, 1) if is_map else (0,)):
                    probes.append(['merge', old, com, new, forms[(len(old) + len(com) + len(new) + bump) % len(forms)], bump])
    cfg = dict(cfg, census=False)
    for i in range(0, len(probes), chunk):
        yield {'cfg': cfg, 'build': [], 'probes': probes[i:i + chunk]}


# ----------------------------------------------------------------------------- one case

def run_case(case, ctx, fault_cls=CmpFault, audit_refs=True):
    cfg = case['cfg']
    w = World(cfg)
    w.audit_refs = audit_refs and w.impl == 'c' and not w.stored      # loaded keys are new objects
    fault = fault_cls(w)
    P.Hook.reset()
    P.arm(False)
    classes = ['kind:' + w.kind, 'fam:' + w.fam, 'impl:' + w.impl]
    h = case_hash(case)
    if not hasattr(ctx, '_seen_cases'):
        ctx._seen_cases = set()
    first_time = h not in ctx._seen_cases
    ctx._seen_cases.add(h)
    ninj = nnt = 0
    cls = {}

    def bump(k):
        cls[k] = cls.get(k, 0) + 1
    with F.NodeSizes(w.klass, tuple(w.sizes) if w.sizes else None):
        t0 = w.build(case['build'])
        size = len(t0)
        if w.is_tree:
            wk = walker.walk(t0, w.is_map)
            classes.append('height:%d' % wk.height)
            del wk
        del t0
        if w.audit_refs:
            gc.collect()
            w.base_nodes = w.live_nodes()       # node objects alive while no container of this case exists
        for pi, op in enumerate(case['probes']):
            desc = 'probe %d %r on %s%s(%s, sizes %s) built by %r' % (pi, op, w.fam, w.kind, w.impl, w.sizes,
                                                                      case['build'])
            total, outcome, _ = _run_probe(w, case['build'], op, 0, ctx, desc, fault)
            ninj += 1
            bump('count:%s:N=%s' % (op[0], 'zero' if total == 0 else ('1-3' if total <= 3 else
                                                                      ('4-9' if total <= 9 else '10+'))))
            for n in range(1, total + 1):
                cnt, outcome, state = _run_probe(w, case['build'], op, n, ctx, desc, fault)
                ninj += 1
                where = 'first' if n == 1 else ('last' if n == total else 'middle')
                bump('inj:%s:%s:%s' % (op[0], where, state if outcome == 'boom' else outcome))
                if (op[0] in MUTATING or n >= 2) and size >= 2:
                    nnt += 1
    if w.stored:
        classes.append('stored')
        if w.stored_fallback:
            classes.append('stored:fell_back_to_plain(F16 shape)')
    w.conn = None
    if first_time:
        ctx.ok_bulk(ninj, nnt, cls, sample=case if nnt else None)
    else:
        ctx.count('duplicate_case')
    return False, classes
