"""A minimal re-implementation of the part of ZODB's storage/Connection protocol that the
properties talk about (ZODB itself is not installable here).  It follows

* persistent/interfaces.py  IPersistentDataManager: register(obj), setstate(obj),
  readCurrent(obj), oldstate(obj, tid); persistent.PickleCache for eviction;
* ZODB.Connection: commit writes registered objects that are still `_p_changed`, plus
  objects that become reachable from them and have no oid yet (ObjectWriter's stack);
  abort invalidates registered objects; MVCC snapshot loads; readCurrent verification;
* ZODB.ConflictResolution.tryToResolveConflict: states unpickled with one
  PersistentReference stub per oid, klass.__new__(klass)._p_resolveConflict(old, com, new).

Records are (class object, state pickle); classes are not pickled, so Python classes are
stored and reloaded as Python classes.
"""
import io
import pickle

from persistent import PickleCache

Z64 = b'\0' * 8
PROTO = 3


def p64(n):
    return n.to_bytes(8, 'big')


def u64(b):
    return int.from_bytes(b, 'big')


class ConflictError(Exception):
    """Commit refused."""

    def __init__(self, msg, oid=None, reason=None, kind='write'):
        Exception.__init__(self, msg)
        self.oid = oid
        self.reason = reason
        self.kind = kind


class ReadConflictError(ConflictError):
    def __init__(self, msg, oid=None):
        ConflictError.__init__(self, msg, oid, None, 'read')


class PersistentReference:
    """Stub used for persistent references inside states given to _p_resolveConflict."""

    def __init__(self, oid, klass):
        self.oid = oid
        self.klass = klass

    def __eq__(self, other):
        if isinstance(other, PersistentReference):
            return self.oid == other.oid
        return NotImplemented

    def __ne__(self, other):
        r = self.__eq__(other)
        return r if r is NotImplemented else not r

    __hash__ = None

    def __lt__(self, other):
        raise ValueError("can't reliably compare persistent references")

    __gt__ = __le__ = __ge__ = __lt__

    def __repr__(self):
        return 'PR(%d)' % u64(self.oid)


class Storage:
    def __init__(self):
        self.data = {}          # oid -> [(tid, klass, bytes)]
        self.tid = 0
        self._oid = 0
        self.resolved = 0
        self.log = []           # (tid, {oid: 'stored'|'resolved'})

    def new_oid(self):
        self._oid += 1
        return p64(self._oid)

    def load_before(self, oid, tid_excl):
        """Newest record with tid < tid_excl (tid_excl None: newest)."""
        for tid, klass, data in reversed(self.data[oid]):
            if tid_excl is None or tid < tid_excl:
                return klass, data, tid
        raise KeyError(oid)

    def load_serial(self, oid, tid):
        for t, klass, data in self.data[oid]:
            if t == tid:
                return klass, data
        raise KeyError((oid, tid))

    def current_tid(self, oid):
        return self.data[oid][-1][0]

    def changed_since(self, tid):
        return [oid for oid, recs in self.data.items() if recs[-1][0] > tid]


class _RefFactory:
    def __init__(self):
        self.refs = {}

    def load(self, ref):
        oid, klass = ref
        r = self.refs.get(oid)
        if r is None:
            r = self.refs[oid] = PersistentReference(oid, klass)
        return r


class Connection:
    def __init__(self, storage, cache_size=10 ** 9):
        self.storage = storage
        self.cache = PickleCache(self, cache_size)
        self.registered = []
        self.read_current = {}
        self.added = {}
        self.snapshot = storage.tid
        self.log = []            # ('register'|'readCurrent'|'setstate', oid)
        self.last_commit = None  # {'stored': [oids], 'resolved': [oids]}

    # ------------------------------------------------------------------ data manager API
    def setstate(self, obj):
        oid = obj._p_oid
        klass, data, tid = self.storage.load_before(oid, self.snapshot + 1)
        self.log.append(('setstate', oid))
        state = self._unpickle(data)
        obj.__setstate__(state)
        obj._p_serial = p64(tid)

    def register(self, obj):
        self.log.append(('register', obj._p_oid))
        self.registered.append(obj)

    def readCurrent(self, obj):
        assert obj._p_jar is self
        assert obj._p_oid is not None
        self.log.append(('readCurrent', obj._p_oid))
        if obj._p_serial != Z64:
            self.read_current[obj._p_oid] = obj._p_serial

    def oldstate(self, obj, tid):
        klass, data = self.storage.load_serial(obj._p_oid, u64(tid))
        return self._unpickle(data)

    # ------------------------------------------------------------------ pickling
    def _unpickle(self, data):
        up = pickle.Unpickler(io.BytesIO(data))
        up.persistent_load = self._persistent_load
        return up.load()

    def _persistent_load(self, ref):
        oid, klass = ref
        obj = self.cache.get(oid)
        if obj is not None:
            return obj
        obj = klass.__new__(klass)
        self.cache.new_ghost(oid, obj)
        return obj

    def get(self, oid):
        obj = self.cache.get(oid)
        if obj is not None:
            return obj
        klass, data, tid = self.storage.load_before(oid, self.snapshot + 1)
        return self._persistent_load((oid, klass))

    def _serialize(self, obj, stack):
        def persistent_id(o):
            if o is obj:
                return None
            if not hasattr(type(o), '_p_oid'):
                return None
            try:
                oid = o._p_oid
            except AttributeError:
                return None
            if isinstance(o, type):
                return None
            if oid is None:
                oid = self.storage.new_oid()
                o._p_jar = self
                o._p_oid = oid
                self.added[oid] = o
                stack.append(o)
            elif o._p_jar is not self:
                raise ConflictError('object from another connection', oid, kind='invalidref')
            return (oid, type(o))

        f = io.BytesIO()
        p = pickle.Pickler(f, PROTO)
        p.persistent_id = persistent_id
        p.dump(obj.__getstate__())
        return f.getvalue()

    # ------------------------------------------------------------------ transactions
    def add(self, obj):
        """Like ZODB Connection.add: give an oid, register for the next commit."""
        if obj._p_oid is None:
            oid = self.storage.new_oid()
            obj._p_jar = self
            obj._p_oid = oid
            self.added[oid] = obj
            self.registered.append(obj)
        return obj._p_oid

    def begin(self, own=()):
        """Start a new transaction: move the snapshot forward and apply invalidations
        (not for objects this connection itself just stored unresolved)."""
        assert not self.registered, 'begin() with uncommitted changes'
        old = self.snapshot
        self.snapshot = self.storage.tid
        if self.snapshot != old:
            for oid in self.storage.changed_since(old):
                if oid in own:
                    continue
                if self.cache.get(oid) is not None:
                    self.cache.invalidate(oid)
        self.read_current = {}
        self.log = []

    def abort(self):
        for obj in self.registered:
            oid = obj._p_oid
            if oid in self.added:
                del self.added[oid]
                if self.cache.get(oid) is not None:
                    del self.cache[oid]
                del obj._p_jar
                del obj._p_oid
            else:
                self.cache.invalidate(oid)
        # objects that got an oid only during a failed commit
        for oid, obj in list(self.added.items()):
            if self.cache.get(oid) is not None:
                del self.cache[oid]
            del obj._p_jar
            del obj._p_oid
        self.added = {}
        self.registered = []
        self.read_current = {}
        self.begin()

    def commit(self):
        """Write registered+changed objects and what is newly reachable from them.
        Raises ConflictError (state of the connection is then as after abort())."""
        st = self.storage
        try:
            to_store = {}       # oid -> (klass, bytes, resolved?)
            order = []
            seen = set()
            for obj in list(self.registered):
                oid = obj._p_oid
                if oid in seen:
                    continue
                if oid in self.added:
                    pass
                elif not obj._p_changed:
                    continue
                stack = [obj]
                while stack:
                    o = stack.pop()
                    ooid = o._p_oid
                    if ooid in seen:
                        continue
                    seen.add(ooid)
                    data = self._serialize(o, stack)
                    klass = type(o)
                    resolved = False
                    if ooid in st.data:
                        committed = st.current_tid(ooid)
                        mine = u64(o._p_serial)
                        if committed != mine:
                            data = self._resolve(ooid, klass, mine, committed, data)
                            resolved = True
                    to_store[ooid] = (klass, data, resolved, o)
                    order.append(ooid)
            for oid, serial in self.read_current.items():
                if oid in to_store:
                    continue
                if st.current_tid(oid) != u64(serial):
                    raise ReadConflictError('readCurrent check failed', oid)
        except BaseException:
            self.abort()
            raise
        # ---- point of no return
        if not to_store:
            self.registered = []
            self.read_current = {}
            self.added = {}
            self.last_commit = {'stored': [], 'resolved': [], 'new': []}
            self.begin()
            return None
        st.tid += 1
        tid = st.tid
        stored, resolvedl, newl = [], [], []
        for oid in order:
            klass, data, resolved, o = to_store[oid]
            if oid not in st.data:
                newl.append(oid)
            st.data.setdefault(oid, []).append((tid, klass, data))
            stored.append(oid)
            if oid in self.added:
                self.cache[oid] = o
            if resolved:
                resolvedl.append(oid)
                st.resolved += 1
                self.cache.invalidate(oid)
            else:
                o._p_changed = False
                o._p_serial = p64(tid)
        st.log.append((tid, {'stored': stored, 'resolved': resolvedl}))
        self.last_commit = {'stored': stored, 'resolved': resolvedl, 'new': newl}
        self.registered = []
        self.read_current = {}
        self.added = {}
        self.begin(own=set(stored) - set(resolvedl))
        return tid

    def _resolve(self, oid, klass, old_tid, committed_tid, newdata):
        st = self.storage
        rf = _RefFactory()

        def state(data):
            up = pickle.Unpickler(io.BytesIO(data))
            up.persistent_load = rf.load
            return up.load()

        try:
            inst = klass.__new__(klass)
            resolve = inst._p_resolveConflict
        except AttributeError:
            raise ConflictError('unresolvable class', oid, kind='unresolvable')
        old = state(st.load_serial(oid, old_tid)[1])
        committed = state(st.load_serial(oid, committed_tid)[1])
        new = state(newdata)
        try:
            resolved = resolve(old, committed, new)
        except Exception as e:
            raise ConflictError('conflict resolution failed: %r' % (e,), oid,
                                reason=getattr(e, 'reason', None),
                                kind=type(e).__name__)

        def persistent_id(o):
            if isinstance(o, PersistentReference):
                return (o.oid, o.klass)
            return None

        f = io.BytesIO()
        p = pickle.Pickler(f, PROTO)
        p.persistent_id = persistent_id
        p.dump(resolved)
        return f.getvalue()

    # ------------------------------------------------------------------ cache helpers
    def minimize(self):
        self.cache.minimize()

    def non_ghosts(self):
        """oids of cached objects that are not ghosts."""
        return [oid for oid, o in self.cache.items() if o._p_state != -1]

    def sticky(self):
        return [oid for oid, o in self.cache.items() if o._p_state == 2]


def fresh_reader(storage):
    return Connection(storage)
