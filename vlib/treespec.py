"""Build any tree shape - valid or deliberately corrupted - through ``__setstate__`` only.

spec (JSON):
    leaf      {'L': [key tokens], 'V': [value tokens]?, 'nx': <leaf index | null | 'nat'>?}
    interior  {'N': [child specs], 'S': [separator tokens], 'fb': <leaf index | 'nat' | null>?}
    None      empty tree
A root that is a leaf spec gives the embedded one-leaf form.  'nx'/'fb' default to 'nat' (the
natural successor / leftmost leaf); other values are for the corruption catalog (C18).
"""
from . import families as F


def default_value_token(fam, ktok, i=0):
    v = fam[1]
    if v == 'O':
        return ['v', i]
    if v == 'F':
        return float(i % 7) / 2
    return i % 5 + 1


def leaves_of(spec):
    if spec is None:
        return []
    if 'L' in spec:
        return [spec]
    out = []
    for c in spec['N']:
        out.extend(leaves_of(c))
    return out


def keys_of(spec):
    out = []
    for lf in leaves_of(spec):
        out.extend(lf['L'])
    return out


def height_of(spec):
    if spec is None:
        return 0
    if 'L' in spec:
        return 1
    return 1 + max([height_of(c) for c in spec['N']] or [0])


def build(fam, kind, impl, spec, tree_class=None):
    """Return (tree, leaf_objects)."""
    is_map = F.is_map(kind)
    klass = tree_class or F.cls(fam, kind, impl)
    leaf_class = F.cls(fam, F.leaf_kind(kind), impl)
    t = klass()
    if spec is None:
        return t, []
    lspecs = leaves_of(spec)
    lobjs = [leaf_class() for _ in lspecs]
    counter = [0]

    def leaf_state(ls, idx):
        keys = [F.dk(fam, k) for k in ls['L']]
        if is_map:
            vt = ls.get('V')
            vals = []
            for j, k in enumerate(ls['L']):
                tok = vt[j] if vt is not None else default_value_token(fam, k, counter[0])
                counter[0] += 1
                vals.append(F.dv(fam, tok))
            data = []
            for k, v in zip(keys, vals):
                data.append(k)
                data.append(v)
            data = tuple(data)
        else:
            data = tuple(keys)
        nx = ls.get('nx', 'nat')
        if nx == 'nat':
            nxt = lobjs[idx + 1] if idx + 1 < len(lobjs) else None
        elif nx is None:
            nxt = None
        else:
            nxt = lobjs[nx]
        return (data, nxt) if nxt is not None else (data,)

    if 'L' in spec:
        t.__setstate__(((leaf_state(spec, 0),),))
        return t, []
    for idx in range(len(lspecs) - 1, -1, -1):
        lobjs[idx].__setstate__(leaf_state(lspecs[idx], idx))
    pos = [0]

    def mk(ns, node):
        """fill node from ns; return leftmost leaf index of the subtree"""
        first_idx = None
        data = []
        for i, c in enumerate(ns['N']):
            if i:
                data.append(F.dk(fam, ns['S'][i - 1]))
            if 'L' in c:
                li = pos[0]
                pos[0] += 1
                data.append(lobjs[li])
                fi = li
            else:
                child = klass()
                fi = mk(c, child)
                data.append(child)
            if first_idx is None:
                first_idx = fi
        fb = ns.get('fb', 'nat')
        if fb == 'nat':
            fbo = lobjs[first_idx] if first_idx is not None else None
        elif fb is None:
            fbo = None
        else:
            fbo = lobjs[fb]
        if data:
            node.__setstate__((tuple(data), fbo))
        return first_idx

    mk(spec, t)
    return t, lobjs


# ----------------------------------------------------------------------------- strategies

def valid_specs(fam, ktype='int', max_keys=14, max_leaf=4, max_fan=4, stale=True, spaced=True):
    """Valid tree shapes over integer-like key tokens: random leaf partition, random grouping,
    optional extra single-child levels (unequal depth), separators anywhere in the legal
    interval (max(left subtree), min(right subtree)] ("stale" separators are legal)."""
    from hypothesis import strategies as st
    k = fam[0]
    if k in F.BOUNDS:
        lo, hi = F.BOUNDS[k]
        base = max(lo, -10)
    else:
        base = 0 if k == 'f' else -10

    @st.composite
    def _spec(draw):
        n = draw(st.integers(0, max_keys))
        if n == 0:
            return None
        gaps = draw(st.lists(st.integers(1, 3) if spaced else st.just(1), min_size=n, max_size=n))
        keys = []
        cur = base + draw(st.integers(0, 3))
        for g in gaps:
            cur += g
            keys.append(cur)
        if k == 'O' and ktype == 'int' and draw(st.integers(0, 7)) == 0:
            keys[0] = None
        # leaves
        nodes = []
        i = 0
        while i < n:
            sz = draw(st.integers(1, max_leaf))
            nodes.append({'L': keys[i:i + sz]})
            i += sz
        if len(nodes) == 1 and draw(st.booleans()):
            return nodes[0]

        def lo_hi(s):
            ks = keys_of(s)
            return ks[0], ks[-1]

        level = 0
        while True:
            groups = []
            i = 0
            while i < len(nodes):
                fan = draw(st.integers(1, max_fan))
                grp = nodes[i:i + fan]
                i += fan
                seps = []
                for a, b in zip(grp, grp[1:]):
                    left_max = lo_hi(a)[1]
                    right_min = lo_hi(b)[0]
                    if stale and left_max is not None and right_min - left_max > 1 and draw(st.booleans()):
                        seps.append(draw(st.integers(left_max + 1, right_min)))
                    else:
                        seps.append(right_min)
                groups.append({'N': grp, 'S': seps})
            level += 1
            if len(groups) == 1 and (level >= 3 or draw(st.integers(0, 3)) > 0):
                return groups[0]
            if len(groups) == 1:
                # a root with a single interior child
                groups = [groups[0]]
            # optional extra single-child level on some groups (unequal depth)
            if level < 3:
                groups = [({'N': [g], 'S': []} if draw(st.integers(0, 9)) == 0 else g) for g in groups]
            nodes = groups
            if level >= 4:
                seps = [lo_hi(b)[0] for b in nodes[1:]]
                return {'N': nodes, 'S': seps}

    return _spec()
