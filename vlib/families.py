"""The 22 families x 4 kinds x 2 implementations; key / value domains as JSON tokens;
Hypothesis strategies for them; node-size settings.

A *token* is the JSON form of a key or value inside a case; ``dk`` / ``dv`` turn tokens into the
Python objects handed to the containers:

  integer families   token = int
  O keys             token = int | str | [a, b] (-> tuple) | null (-> None); one ordered type per case
  f keys             token = int 0..65535 (-> 2 bytes, big endian)
  O values           token = any JSON value (lists -> tuples, recursively)
  F values           token = float (float32-exact unless a property says otherwise)
  s values           token = int 0..2**48-1 (-> 6 bytes, big endian)
"""
import importlib
import struct

FAMILIES = ['IO', 'II', 'IF', 'IU', 'UO', 'UU', 'UF', 'UI', 'LO', 'LL', 'LF', 'LQ',
            'QO', 'QQ', 'QF', 'QL', 'OO', 'OI', 'OU', 'OL', 'OQ', 'fs']
KINDS = ['BTree', 'Bucket', 'TreeSet', 'Set']
TREE_KINDS = ('BTree', 'TreeSet')
MAP_KINDS = ('BTree', 'Bucket')
IMPLS = ['c', 'py']
INT_CODES = 'IULQ'

BOUNDS = {
    'I': (-2 ** 31, 2 ** 31 - 1),
    'U': (0, 2 ** 32 - 1),
    'L': (-2 ** 63, 2 ** 63 - 1),
    'Q': (0, 2 ** 64 - 1),
}

# (max_leaf_size, max_internal_size); None = the family's defaults
SIZES = [(2, 2), (3, 2), (2, 3), (3, 3), (4, 3), (5, 4), (7, 5), None]
SMALL_SIZES = SIZES[:-1]


class SubInt(int):
    """an int subclass (like bool or an IntEnum member): representable wherever an int is, stored as the int"""


class SubFloat(float):
    """a float subclass: stored as the float"""


def module(fam):
    return importlib.import_module('BTrees.%sBTree' % fam)


def cls(fam, kind, impl):
    return getattr(module(fam), fam + kind + ('Py' if impl == 'py' else ''))


def fn(fam, name, impl):
    """Module-level set function (union, multiunion, ...) or None when the family has none."""
    return getattr(module(fam), name + ('Py' if impl == 'py' else ''), None)


def is_map(kind):
    return kind in MAP_KINDS


def is_tree(kind):
    return kind in TREE_KINDS


def leaf_kind(kind):
    return {'BTree': 'Bucket', 'TreeSet': 'Set'}.get(kind, kind)


# ----------------------------------------------------------------------------- decoding

def _detuple(x):
    if isinstance(x, list):
        return tuple(_detuple(i) for i in x)
    return x


def dk(fam, tok):
    k = fam[0]
    if k == 'f':
        return struct.pack('>H', tok)
    if k == 'O':
        return _detuple(tok)
    return tok


def dv(fam, tok):
    v = fam[1]
    if v == 's':
        return tok.to_bytes(6, 'big')
    if v == 'O':
        return _detuple(tok)
    return tok


def ek(fam, key):
    """Python key -> token (inverse of dk)."""
    k = fam[0]
    if k == 'f':
        return struct.unpack('>H', key)[0]
    if k == 'O':
        return _entuple(key)
    return key


def ev(fam, val):
    v = fam[1]
    if v == 's':
        return int.from_bytes(val, 'big')
    if v == 'O':
        return _entuple(val)
    return val


def _entuple(x):
    if isinstance(x, tuple):
        return [_entuple(i) for i in x]
    return x


def sortkey(k):
    """None is the smallest object key."""
    return (k is not None, k)


# ----------------------------------------------------------------------------- node sizes

class NodeSizes:
    """Set max_leaf_size / max_internal_size on the class itself; restore on exit."""

    def __init__(self, klass, sizes):
        self.klass = klass
        self.sizes = sizes

    def __enter__(self):
        if self.sizes is not None and hasattr(self.klass, 'max_leaf_size'):
            self.saved = (self.klass.max_leaf_size, self.klass.max_internal_size)
            self.klass.max_leaf_size, self.klass.max_internal_size = self.sizes
        else:
            self.saved = None
        return self

    def __exit__(self, *exc):
        if self.saved is not None:
            self.klass.max_leaf_size, self.klass.max_internal_size = self.saved
        return False


_SUBCLASSES = {}


def subclass(klass, sizes):
    """A module-level-like subclass with its own node sizes (the other documented way)."""
    key = (klass, tuple(sizes))
    sc = _SUBCLASSES.get(key)
    if sc is None:
        sc = type(klass)(klass.__name__ + '_sz%d_%d' % tuple(sizes), (klass,),
                         {'max_leaf_size': sizes[0], 'max_internal_size': sizes[1]})
        sc.__module__ = __name__
        globals()[sc.__name__] = sc          # importable by name, so instances pickle
        _SUBCLASSES[key] = sc
    return sc


def leaf_subclass(tree_klass, leaf_klass, sizes):
    """A tree subclass whose leaves are instances of a subclass of the family's leaf class (the class attribute
    _bucket_type that BTree_newBucket / _Tree consult), both importable by name."""
    key = (tree_klass, 'leafsub', tuple(sizes))
    sc = _SUBCLASSES.get(key)
    if sc is None:
        leaf = type(leaf_klass)(leaf_klass.__name__ + '_sub', (leaf_klass,), {})
        leaf.__module__ = __name__
        globals()[leaf.__name__] = leaf
        sc = type(tree_klass)(tree_klass.__name__ + '_leafsub%d_%d' % tuple(sizes), (tree_klass,),
                              {'max_leaf_size': sizes[0], 'max_internal_size': sizes[1], '_bucket_type': leaf})
        sc.__module__ = __name__
        globals()[sc.__name__] = sc
        _SUBCLASSES[key] = sc
    return sc


def domain(fam, ktype='int'):
    """Dense, ascending list of key tokens of the family (collisions and neighbours are
    frequent when keys are drawn from it), incl. the extremes of the type."""
    k = fam[0]
    if k in BOUNDS:
        lo, hi = BOUNDS[k]
        d = set(range(max(lo, -8), 9)) | {lo, lo + 1, hi - 1, hi}
        if k in 'UQ':
            d |= {2 ** 31 - 1, 2 ** 31}
        if k == 'Q':
            d |= {2 ** 63 - 1, 2 ** 63}
        return sorted(d)
    if k == 'f':
        return sorted(set(range(0, 13)) | {0x7f, 0x80, 0xff, 0x100, 0x7f00, 0x7fff, 0x8000,
                                           0xff00, 0xfffe, 0xffff})
    if ktype == 'int':
        return [None] + sorted(set(range(-8, 9)) | {2 ** 70, -2 ** 70})
    if ktype == 'str':
        return [None] + sorted(['', 'a', 'b', 'c', 'd', 'e', 'f', 'g', 'h', 'aa', 'ab', 'ba',
                                'bb', 'ca', 'z', 'Z', '\xe9', '\U0001f600'])
    return [None] + [[a, b] for a in range(4) for b in range(4)]


def default_token(fam, ktype='int'):
    k = fam[0]
    if k == 'O':
        return {'int': 0, 'str': 'a'}.get(ktype, [0, 0])
    return 0


# ----------------------------------------------------------------------------- strategies

def key_tokens(fam, ktype='int', dense=8):
    """Strategy for key tokens of the family.  Dense small range (collisions are frequent)
    plus the extremes of the type."""
    from hypothesis import strategies as st
    k = fam[0]
    if k in BOUNDS:
        lo, hi = BOUNDS[k]
        dlo = max(lo, -dense)
        ext = [lo, lo + 1, hi - 1, hi]
        if k == 'U':
            ext += [2 ** 31 - 1, 2 ** 31]
        if k == 'Q':
            ext += [2 ** 63 - 1, 2 ** 63, 2 ** 32]
        if k == 'L':
            ext += [2 ** 31, -2 ** 31 - 1, 2 ** 32]
        return st.one_of(st.integers(dlo, dense), st.integers(dlo, dense),
                         st.sampled_from(ext), st.integers(lo, hi))
    if k == 'f':
        return st.one_of(st.integers(0, 12),
                         st.sampled_from([0, 1, 0x7f, 0x80, 0xff, 0x100, 0x7f00, 0x7fff, 0x8000,
                                          0xff00, 0xfffe, 0xffff]),
                         st.integers(0, 0xffff))
    # object keys: one totally ordered type per case + None
    if ktype == 'int':
        base = st.one_of(st.integers(-dense, dense), st.integers(-dense, dense),
                         st.sampled_from([2 ** 70, -2 ** 70, 2 ** 31, -2 ** 63]),
                         st.integers(-1000, 1000))
    elif ktype == 'str':
        base = st.one_of(st.sampled_from(['', 'a', 'b', 'c', 'd', 'e', 'f', 'g', 'h', 'aa', 'ab',
                                          'ba', 'z', 'Z', 'é', '\U0001f600']),
                         st.text(alphabet='abcd', max_size=3))
    else:
        base = st.tuples(st.integers(0, 3), st.integers(0, 3)).map(list)
    return st.one_of(base, base, base, base, base, base, base, st.none())


def value_tokens(fam):
    from hypothesis import strategies as st
    v = fam[1]
    if v in BOUNDS:
        lo, hi = BOUNDS[v]
        return st.one_of(st.integers(max(lo, -3), 3), st.sampled_from([lo, hi, lo + 1, hi - 1]),
                         st.integers(lo, hi))
    if v == 'F':
        return st.one_of(
            st.integers(-16, 16).map(lambda i: i / 8.0),
            st.sampled_from([0.0, 1.0, -1.0, 0.5, 2.0 ** 20, -2.0 ** -10, 3.0, 1e10 - 1e10 % 1024,
                             float('inf'), float('-inf'), 2.0 ** 127, -2.0 ** 127,
                             2.0 ** -126, 2.0 ** -149]),
            st.integers(-1000, 1000))
    if v == 's':
        return st.one_of(st.integers(0, 3), st.sampled_from([0, 1, 2 ** 48 - 1, 0x7f0000000000,
                                                            0x800000000000, 0xff]),
                         st.integers(0, 2 ** 48 - 1))
    return st.one_of(st.integers(-3, 3), st.none(), st.sampled_from(['', 'v', 'w']),
                     st.tuples(st.integers(0, 2), st.integers(0, 2)).map(list),
                     st.booleans(), st.just(1.5))


KTYPES = ['int', 'int', 'str', 'tup']


def configs(fams=None, kinds=None, impls=None, sizes=None):
    """Strategy for a configuration dict."""
    from hypothesis import strategies as st
    fams = fams or FAMILIES
    kinds = kinds or KINDS
    impls = impls or IMPLS
    sizes = sizes if sizes is not None else SIZES

    def mk(fam, kind, impl, sz, ktype, mode):
        c = {'fam': fam, 'kind': kind, 'impl': impl}
        if kind in TREE_KINDS:
            c['sizes'] = list(sz) if sz else None
            c['mode'] = mode if sz else 'class'
        if fam[0] == 'O':
            c['ktype'] = ktype
        return c

    return st.builds(mk, st.sampled_from(fams), st.sampled_from(kinds), st.sampled_from(impls),
                     st.sampled_from(sizes), st.sampled_from(KTYPES),
                     st.sampled_from(['class', 'class', 'subclass']))


def rotate(seq, seed, n):
    """n elements of seq starting at a seed-dependent offset (cyclic)."""
    seq = list(seq)
    off = seed % len(seq)
    return [seq[(off + i) % len(seq)] for i in range(min(n, len(seq)))]
