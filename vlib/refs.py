"""Reference-count accounting for the C extension (C16, used by C14/C17 as well).

``holdings(t)`` counts, per object identity, how many slots of the structure hold the object:
leaf key slots, leaf value slots and interior separator slots - read through the documented
``__getstate__`` layouts only.  ``audit(registry, t, ...)`` compares that with
``sys.getrefcount`` for every registered (never interned, never immortal) probe object.
"""
import collections
import gc
import sys


def holdings(containers):
    """containers: iterable of (obj, is_map, is_tree).  Returns Counter id -> slots."""
    cnt = collections.Counter()

    def leaf(state, is_map):
        data = state[0]
        for x in data:
            cnt[id(x)] += 1

    def tree(node, is_map, tt, seen):
        if id(node) in seen:
            return
        seen.add(id(node))
        st = node.__getstate__()
        if st is None:
            return
        if len(st) == 1:
            leaf(st[0][0], is_map)
            return
        data = st[0]
        for i, x in enumerate(data):
            if i % 2:
                cnt[id(x)] += 1          # separator slot
            elif type(x) is tt:
                tree(x, is_map, tt, seen)
            else:
                if id(x) not in seen:
                    seen.add(id(x))
                    leaf(x.__getstate__(), is_map)
        del st, data

    for obj, is_map, is_tree in containers:
        if obj is None:
            continue
        if is_tree:
            tree(obj, is_map, type(obj), set())
        else:
            leaf(obj.__getstate__(), is_map)
    return cnt


def audit(registry, containers, extra=None, lazy_gc=False):
    """registry: list of probe objects (the list itself holds one reference to each).
    extra: Counter id -> additional references the harness knowingly holds.
    lazy_gc: run the cycle collector only when the first comparison disagrees (a disagreement that
    survives a collection is real; an agreement cannot be produced by garbage).
    Returns list of (obj, refcount_minus_harness, expected_slots)."""
    if lazy_gc:
        bad = _audit(registry, containers, extra)
        if not bad:
            return bad
    gc.collect()
    return _audit(registry, containers, extra, collect=True)


def _audit(registry, containers, extra, collect=False):
    want = holdings(containers)
    if collect:
        gc.collect()
    bad = []
    extra = extra or {}
    i = 0
    n = len(registry)
    while i < n:
        # registry slot + getrefcount argument = 2 harness references
        have = sys.getrefcount(registry[i]) - 2 - extra.get(id(registry[i]), 0)
        exp = want.get(id(registry[i]), 0)
        if have != exp:
            bad.append((repr(registry[i]), have, exp))
        i += 1
    return bad
