"""Operation histories: Hypothesis strategies, the reference model and the interpreter.

A case is ``{'cfg': {...}, 'ops': [[name, args...], ...]}``.  Key arguments are tokens
(families.dk) or ``{'@': i}`` = "the i-th key currently stored (mod n)", so that cases are valid
by construction and replay without Hypothesis.

``Live`` holds one live container with its reference model; ``Live.step(op)`` executes the op
on both and returns ``(got, want, mode)`` with got/want = ('ok', value) | ('exc', class) and
mode one of 'eq' (equal), 'truth' (same truth value), 'ignore', 'some' (validity predicate
already applied; want is ('ok', True/False)).
"""
from . import families as F
from . import walker

MAP_OPS = ['set', 'del', 'insert', 'setdefault', 'pop', 'popd', 'popitem', 'update', 'clear',
           'get', 'getd', 'getitem', 'in', 'has_key', 'len', 'bool', 'list', 'keys', 'values',
           'items']
SET_OPS = ['add', 'insert', 'remove', 'discard', 'pop', 'update', 'clear', 'ior', 'iand', 'isub',
           'ixor', 'isdisjoint', 'in', 'has_key', 'len', 'bool', 'list', 'keys', 'idx']
MUTATORS = {'set', 'del', 'insert', 'setdefault', 'pop', 'popd', 'popitem', 'update', 'clear',
            'add', 'remove', 'discard', 'ior', 'iand', 'isub', 'ixor', 'bad'}
SINGLE_KEY = {'set', 'del', 'insert', 'setdefault', 'pop', 'popd', 'add', 'remove', 'discard',
              'get', 'getd', 'getitem', 'in', 'has_key'}


# ----------------------------------------------------------------------------- strategies

_OPS_CACHE = {}


class _Plain(object):
    """an object with default comparison: not usable as an object key"""


def bad_data(code, role):
    """data that the family's key / value type cannot represent (writes must raise TypeError and change nothing)"""
    if code in F.BOUNDS:
        lo, hi = F.BOUNDS[code]
        return ['x', None, 1.5, lo - 1, hi + 1, 2 ** 70, -2 ** 70, b'ab', (1,)]
    if code == 'F':
        return ['x', None, 1e40, -1e40, b'ab', (1.0,), 2 ** 200]
    if code == 'f':
        return [b'abc', b'a', b'', 'ab', 5, None]
    if code == 's':
        return [b'abc', b'abcdefg', b'', 'abcdef', 5, None]
    if role == 'key':
        return [_Plain()]
    return []


def key_arg(fam, ktype):
    from hypothesis import strategies as st
    dom = F.domain(fam, ktype)
    return st.one_of(st.sampled_from(dom), st.sampled_from(dom), F.key_tokens(fam, ktype),
                     st.integers(0, 40).map(lambda i: {'@': i}),
                     st.integers(0, 40).map(lambda i: {'@': i}))


def op_strategy(fam, kind, ktype='int', readonly_weight=1):
    """Strategy for one operation of the kind's public API."""
    from hypothesis import strategies as st
    ck = (fam, kind, ktype, readonly_weight)
    if ck in _OPS_CACHE:
        return _OPS_CACHE[ck]
    K = key_arg(fam, ktype)
    KT = st.one_of(st.sampled_from(F.domain(fam, ktype)), F.key_tokens(fam, ktype))
    op = lambda *a: st.tuples(*[st.just(x) if isinstance(x, str) else x for x in a]).map(list)
    if F.is_map(kind):
        V = F.value_tokens(fam)
        pairs = st.lists(st.tuples(KT, V).map(list), max_size=6)
        forms = st.sampled_from(['pairs', 'tuple', 'dict', 'Bucket', 'BTree'])
        muts = [op('set', K, V), op('set', K, V), op('set', K, V), op('del', K), op('del', K),
                op('del', K), op('setdefault', K, V), op('pop', K), op('popd', K, V),
                op('popitem'), op('update', pairs, forms)]
        if kind == 'BTree':
            muts.append(op('insert', K, V))
        reads = [op('get', K), op('getd', K, V), op('getitem', K), op('in', K), op('has_key', K),
                 op('len'), op('bool'), op('list'), op('keys'), op('values'), op('items')]
        hows = ['set', 'setdefault', 'update'] + (['insert'] if kind == 'BTree' else [])
        muts.append(op('bad', st.sampled_from(['key', 'value']), st.sampled_from(hows), st.integers(0, 8), K, V))
        weights = muts * 3 + [op('clear')] + reads * readonly_weight
    else:
        ks = st.lists(KT, max_size=8)
        forms = st.sampled_from(['list', 'tuple', 'gen', 'pyset', 'Set', 'TreeSet'])
        formself = st.sampled_from(['list', 'tuple', 'gen', 'pyset', 'Set', 'TreeSet', 'self'])
        muts = [op('add', K), op('add', K), op('add', K), op('insert', K), op('remove', K),
                op('remove', K), op('discard', K), op('discard', K), op('pop'),
                op('update', ks, forms), op('ior', ks, forms), op('iand', ks, formself),
                op('isub', ks, formself), op('ixor', ks, formself)]
        muts.append(op('bad', 'key', st.sampled_from(['add', 'update'] + (['insert'] if kind == 'TreeSet' else [])),
                       st.integers(0, 8), K, st.none()))
        reads = [op('isdisjoint', ks, forms), op('in', K), op('has_key', K), op('len'), op('bool'),
                 op('list'), op('keys')]
        if kind == 'Set':
            reads.append(op('idx', st.integers(0, 30)))
        weights = muts * 3 + [op('clear')] + reads * readonly_weight
    s = st.one_of(*weights)
    _OPS_CACHE[ck] = s
    return s


def runs_strategy(fam, kind, ktype):
    """'fill then thin' prefix: runs of inserts/deletes over consecutive domain keys."""
    from hypothesis import strategies as st
    dom = F.domain(fam, ktype)
    n = len(dom)
    is_map = F.is_map(kind)

    def expand(runs):
        out = []
        for ins, start, length, step, vtok in runs:
            for j in range(length):
                tok = dom[(start + j * step) % n]
                if ins:
                    out.append(['set', tok, vtok] if is_map else ['add', tok])
                else:
                    out.append(['popd', tok, vtok] if is_map else ['discard', tok])
        return out

    run = st.tuples(st.booleans(), st.integers(0, n - 1), st.integers(1, 12), st.sampled_from([1, 1, 2]),
                    F.value_tokens(fam) if is_map else st.none())
    first = st.tuples(st.just(True), st.integers(0, n - 1), st.integers(4, 24), st.just(1),
                      F.value_tokens(fam) if is_map else st.none())
    fill = st.tuples(first, st.lists(run, max_size=4)).map(lambda t: expand([t[0]] + t[1]))
    return st.one_of(st.just([]), fill, fill,
                     st.tuples(first, st.lists(run, max_size=4)).map(lambda t: expand([t[0]] + t[1])))


def cases(cfgs, max_ops=60, readonly_weight=1, prefix=True):
    from hypothesis import strategies as st

    @st.composite
    def _case(draw):
        cfg = draw(cfgs)
        fam, kind, ktype = cfg['fam'], cfg['kind'], cfg.get('ktype', 'int')
        ops = []
        if prefix:
            ops = list(draw(runs_strategy(fam, kind, ktype)))
        ops += draw(st.lists(op_strategy(fam, kind, ktype, readonly_weight), max_size=max_ops))
        return {'cfg': cfg, 'ops': ops}

    return _case()


# ----------------------------------------------------------------------------- live container

class Unbound:
    """Makes every call through the class: ``Unbound(t).get(k)`` is ``type(t).get(t, k)``.  Looking a method up on
    the *instance* of a persistent class activates a ghost before the method runs, which hides a method that
    forgets to activate the object itself; looking it up on the class does not."""
    __slots__ = ('_t', '_c')

    def __init__(self, t):
        object.__setattr__(self, '_t', t)
        object.__setattr__(self, '_c', type(t))

    def __getattr__(self, name):
        f = getattr(self._c, name)
        t = self._t
        return lambda *a, **kw: f(t, *a, **kw)

    def __contains__(self, k):
        return self._c.__contains__(self._t, k)

    def __len__(self):
        return self._c.__len__(self._t)

    def __iter__(self):
        return self._c.__iter__(self._t)

    def __bool__(self):
        f = getattr(self._c, '__bool__', None)
        return f(self._t) if f is not None else self._c.__len__(self._t) != 0

    def __getitem__(self, k):
        return self._c.__getitem__(self._t, k)

    def __setitem__(self, k, v):
        return self._c.__setitem__(self._t, k, v)

    def __delitem__(self, k):
        return self._c.__delitem__(self._t, k)


class Live:
    def __init__(self, cfg, impl=None, track_shape=True):
        self.cfg = cfg
        self.fam = cfg['fam']
        self.kind = cfg['kind']
        self.impl = impl or cfg['impl']
        self.ktype = cfg.get('ktype', 'int')
        self.is_map = F.is_map(self.kind)
        self.is_tree = F.is_tree(self.kind)
        self.sizes = tuple(cfg['sizes']) if cfg.get('sizes') else None
        self.mode = cfg.get('mode', 'class')
        base = F.cls(self.fam, self.kind, self.impl)
        self.base = base
        self._ns = None
        klass = base
        if self.is_tree and self.sizes:
            if self.mode == 'subclass':
                klass = F.subclass(base, self.sizes)
            else:
                self._ns = F.NodeSizes(base, self.sizes)
                self._ns.__enter__()
        self.klass = klass
        self.t = klass()
        self.model = {}
        self.track_shape = track_shape and self.is_tree
        self.events = set()
        self.max_height = 0
        self.max_leaves = 0
        self.removals = 0
        self._leaf_ids = []
        self._height = 0
        self.loaded = False     # True once the tree was (re)built from a state
        self.arm = None         # callable(bool): arm/disarm probes around the real call only
        self.last_exc = None
        self.keywrap = None     # callable(key) -> key object handed to the container (HookKey)

    def callee(self):
        """what the calls are made on: the container, or - cfg['unbound'] - a proxy that makes every call through the
        class (type(t).meth(t, ...)), so that no instance attribute access activates a ghost before the method's own
        code runs"""
        if self.cfg.get('unbound'):
            return Unbound(self.t)
        return self.t

    def close(self):
        if self._ns is not None:
            self._ns.__exit__(None, None, None)
            self._ns = None

    def __enter__(self):
        return self

    def __exit__(self, *exc):
        self.close()
        return False

    # -- helpers
    def sorted_keys(self):
        return sorted(self.model, key=F.sortkey)

    def K(self, arg):
        if isinstance(arg, dict):
            ks = self.sorted_keys()
            if not ks:
                return self._kw(F.dk(self.fam, F.default_token(self.fam, self.ktype)))
            return ks[arg['@'] % len(ks)]
        return self._kw(F.dk(self.fam, arg))

    def _kw(self, k):
        if self.keywrap is not None and k is not None:
            return self.keywrap(k)
        return k

    def V(self, tok):
        return F.dv(self.fam, tok)

    def contents(self):
        """Ordered contents as seen through the public API."""
        if self.is_map:
            return list(self.t.items())
        return list(self.t)

    def model_contents(self):
        ks = self.sorted_keys()
        if self.is_map:
            return [(k, self.model[k]) for k in ks]
        return ks

    def other(self, form, keys=None, pairs=None):
        """Build the operand for update / in-place ops."""
        py = 'py' if self.impl == 'py' else 'c'
        if pairs is not None:
            pairs = [(F.dk(self.fam, k), F.dv(self.fam, v)) for k, v in pairs]
            if form == 'pairs':
                return list(pairs)
            if form == 'tuple':
                return tuple(pairs)
            if form == 'gen':
                return (p for p in pairs)
            if form == 'dict':
                return dict(pairs)
            c = F.cls(self.fam, form, py)()
            for k, v in pairs:
                c[k] = v
            return c
        keys = [F.dk(self.fam, k) for k in keys]
        if form == 'list':
            return list(keys)
        if form == 'tuple':
            return tuple(keys)
        if form == 'gen':
            return (k for k in keys)
        if form == 'pyset':
            return set(keys)
        if form == 'self':
            return self.t
        c = F.cls(self.fam, form, py)()
        for k in keys:
            c.add(k)
        return c

    # -- one step
    def step(self, op):
        """Execute op on the real container and on the model."""
        name = op[0]
        t, m = self.callee(), self.model
        call = None      # zero-arg callable on the real container
        post = None      # applied to the result outside the armed region (mode 'some')
        want = None
        mode = 'eq'
        if name in SINGLE_KEY and len(op) > 1:
            k = self.K(op[1])
        if name == 'set':
            v = self.V(op[2])
            call = lambda: t.__setitem__(k, v)
            want = ('ok', None)
            upd = lambda: m.__setitem__(k, v)
        elif name == 'del':
            call = lambda: t.__delitem__(k)
            want = ('ok', None) if k in m else ('exc', KeyError)
            upd = lambda: m.pop(k, None)
        elif name == 'insert' and self.is_map:
            v = self.V(op[2])
            call = lambda: t.insert(k, v)
            want = ('ok', k not in m)
            mode = 'truth'
            upd = lambda: m.setdefault(k, v)
        elif name == 'setdefault':
            v = self.V(op[2])
            call = lambda: t.setdefault(k, v)
            want = ('ok', m[k] if k in m else v)
            upd = lambda: m.setdefault(k, v)
        elif name == 'pop' and self.is_map:
            call = lambda: t.pop(k)
            want = ('ok', m[k]) if k in m else ('exc', KeyError)
            upd = lambda: m.pop(k, None)
        elif name == 'popd':
            d = self.V(op[2])
            call = lambda: t.pop(k, d)
            want = ('ok', m[k] if k in m else d)
            upd = lambda: m.pop(k, None)
        elif name == 'popitem':
            before = dict(m)
            call = lambda: t.popitem()

            def post(r):
                ok = (isinstance(r, tuple) and len(r) == 2 and r[0] in before
                      and before[r[0]] == r[1])
                if ok:
                    m.pop(r[0])
                return ok
            want = ('ok', True) if m else ('exc', KeyError)
            mode = 'some'
            upd = lambda: None
        elif name == 'update' and self.is_map:
            o = self.other(op[2], pairs=op[1])
            call = lambda: t.update(o)
            want = ('ok', None)
            mode = 'ignore'
            pr = [(F.dk(self.fam, a), F.dv(self.fam, b)) for a, b in op[1]]
            upd = lambda: m.update(pr)
        elif name == 'clear':
            call = lambda: t.clear()
            want = ('ok', None)
            upd = lambda: m.clear()
        elif name == 'get':
            call = lambda: t.get(k)
            want = ('ok', m.get(k))
            upd = None
        elif name == 'getd':
            d = self.V(op[2])
            call = lambda: t.get(k, d)
            want = ('ok', m.get(k, d))
            upd = None
        elif name == 'getitem':
            call = lambda: t[k]
            want = ('ok', m[k]) if k in m else ('exc', KeyError)
            upd = None
        elif name == 'in':
            call = lambda: k in t
            want = ('ok', k in m)
            mode = 'truth'
            upd = None
        elif name == 'has_key':
            call = lambda: t.has_key(k)
            want = ('ok', k in m)
            mode = 'truth'
            upd = None
        elif name == 'len':
            call = lambda: len(t)
            want = ('ok', len(m))
            upd = None
        elif name == 'bool':
            call = lambda: bool(t)
            want = ('ok', bool(m))
            upd = None
        elif name == 'list':
            call = lambda: list(t)
            want = ('ok', self.sorted_keys())
            upd = None
        elif name == 'keys':
            call = lambda: list(t.keys())
            want = ('ok', self.sorted_keys())
            upd = None
        elif name == 'values':
            call = lambda: list(t.values())
            want = ('ok', [m[x] for x in self.sorted_keys()])
            upd = None
        elif name == 'items':
            call = lambda: list(t.items())
            want = ('ok', [(x, m[x]) for x in self.sorted_keys()])
            upd = None
        # ---- sets
        elif name in ('add', 'insert'):
            call = (lambda: t.add(k)) if name == 'add' else (lambda: t.insert(k))
            want = ('ok', k not in m)
            mode = 'truth'
            upd = lambda: m.setdefault(k, None)
        elif name == 'remove':
            call = lambda: t.remove(k)
            want = ('ok', None) if k in m else ('exc', KeyError)
            upd = lambda: m.pop(k, None)
        elif name == 'discard':
            call = lambda: t.discard(k)
            want = ('ok', None)
            upd = lambda: m.pop(k, None)
        elif name == 'pop':
            before = set(m)
            call = lambda: t.pop()

            def post(r):
                ok = r in before
                if ok:
                    m.pop(r)
                return ok
            want = ('ok', True) if m else ('exc', KeyError)
            mode = 'some'
            upd = lambda: None
        elif name == 'update':
            o = self.other(op[2], keys=op[1])
            call = lambda: t.update(o)
            want = ('ok', None)
            mode = 'ignore'
            ks = [F.dk(self.fam, a) for a in op[1]]
            upd = lambda: m.update((x, None) for x in ks)
        elif name in ('ior', 'iand', 'isub', 'ixor'):
            o = self.other(op[2], keys=op[1])
            ks = set(m) if op[2] == 'self' else set(F.dk(self.fam, a) for a in op[1])

            def call():
                if name == 'ior':
                    r = t.__ior__(o)
                elif name == 'iand':
                    r = t.__iand__(o)
                elif name == 'isub':
                    r = t.__isub__(o)
                else:
                    r = t.__ixor__(o)
                return r is self.t
            want = ('ok', True)
            cur = set(m)
            new = {'ior': cur | ks, 'iand': cur & ks, 'isub': cur - ks, 'ixor': cur ^ ks}[name]

            def upd():
                m.clear()
                m.update((x, None) for x in new)
        elif name == 'isdisjoint':
            o = self.other(op[2], keys=op[1])
            ks = set(F.dk(self.fam, a) for a in op[1])
            call = lambda: t.isdisjoint(o)
            want = ('ok', not (set(m) & ks))
            mode = 'truth'
            upd = None
        elif name == 'bad':
            # a write with a key / value the family cannot represent: TypeError, nothing changes (no model update)
            _, role, how, zi, karg, vtok = op
            code = self.fam[0] if role == 'key' else self.fam[1]
            pool = bad_data(code, role)
            if not pool:
                call = lambda: None
                want = ('ok', None)
            else:
                z = pool[zi % len(pool)]
                gk = z if role == 'key' else self.K(karg)
                if self.is_map:
                    gv = z if role == 'value' else self.V(vtok)
                    call = {'set': lambda: t.__setitem__(gk, gv), 'setdefault': lambda: t.setdefault(gk, gv),
                            'insert': lambda: t.insert(gk, gv), 'update': lambda: t.update([(gk, gv)])}[how]
                else:
                    call = {'add': lambda: t.add(gk), 'insert': lambda: t.insert(gk),
                            'update': lambda: t.update([gk])}[how]
                want = ('exc', TypeError)
            upd = None
        elif name == 'idx':
            i = op[1]
            sk = self.sorted_keys()
            call = lambda: t[i]
            want = ('ok', sk[i]) if i < len(sk) else ('exc', IndexError)
            upd = None
        else:
            raise ValueError('unknown op %r for %s' % (op, self.kind))
        arm = self.arm
        try:
            if arm is not None:
                arm(True)
            got = ('ok', call())
        except Exception as e:       # noqa: the class is the observation
            got = ('exc', type(e))
            self.last_exc = e
        finally:
            if arm is not None:
                arm(False)
        if post is not None and got[0] == 'ok':
            got = ('ok', post(got[1]))
        if upd is not None and want[0] == 'ok':
            upd()
        return got, want, mode

    # -- shape tracking (class counters / non-triviality)
    def observe_shape(self):
        if not self.track_shape:
            return None
        w = walker.walk(self.t, self.is_map, check=False)
        ids = [id(lf.obj) for lf in w.leaves]
        ev = self.events
        if w.height > self._height and self._height >= 1:
            ev.add('root_split')
        if len(w.interior) > 1 and w.height >= 3:
            ev.add('interior_nodes>1')
        old = self._leaf_ids
        if len(ids) < len(old) and ids and old:
            gone = [i for i, x in enumerate(old) if x not in set(ids)]
            for g in gone:
                if g == 0:
                    ev.add('unlink_first_leaf')
                elif g == len(old) - 1:
                    ev.add('unlink_last_leaf')
                else:
                    ev.add('unlink_middle_leaf')
        if w.height >= 2 and w.root_children == 1:
            ev.add('single_child_root')
        self._leaf_ids = ids
        self._height = w.height
        self.max_height = max(self.max_height, w.height)
        self.max_leaves = max(self.max_leaves, len(ids))
        return w


def fmt(x):
    return '%s:%r' % (x[0], getattr(x[1], '__name__', x[1]))


def same(got, want, mode):
    if got[0] != want[0]:
        return False
    if got[0] == 'exc':
        return got[1] is want[1]
    if mode == 'ignore':
        return True
    if mode == 'truth':
        return bool(got[1]) == bool(want[1])
    if mode == 'some':
        return got[1] is True
    return got[1] == want[1] and _types_ok(got[1], want[1])


def _types_ok(a, b):
    """bytes/str/float/int confusions that == would hide (True == 1 == 1.0)."""
    if isinstance(a, (list, tuple)) and isinstance(b, (list, tuple)) and len(a) == len(b):
        return all(_types_ok(x, y) for x, y in zip(a, b))
    if isinstance(a, bool) != isinstance(b, bool):
        return False
    return True


def arg_features(lv, op):
    """Features of an op's iterable argument that known-finding signatures refer to."""
    f = {}
    if len(op) >= 3 and isinstance(op[1], list) and op[0] in ('update', 'ior', 'iand', 'isub', 'ixor',
                                                              'isdisjoint'):
        toks = [repr(x) for x in (op[1] if not lv.is_map else [p[0] for p in op[1]])]
        f['dup'] = len(set(toks)) != len(toks)
        f['none'] = 'None' in toks
        f['plain'] = op[2] in ('list', 'tuple', 'gen', 'pyset', 'pairs', 'dict')
    return f
