"""Build /repo's *current working tree* into /verif/.build/<variant>-<hash>/.

Variants
  rel  distribution flags (-O3 -DNDEBUG as distutils gives them) + BTREES_VERIF=1
  san  -O1 -g -UNDEBUG -fsanitize=address,undefined (abort on UB) + BTREES_VERIF=1

The result directory contains a package directory ``BTrees`` with the 22 extension
modules and a copy of the working tree's *.py files, so that both implementations
tested are those of the working tree and the editable install of /repo loses the
import race (the build dir is put first on sys.path by the workers).
"""
import fcntl
import hashlib
import os
import shutil
import subprocess
import sys
import tempfile

REPO = os.environ.get('VERIF_REPO', '/repo')
VERIF = os.path.dirname(os.path.dirname(os.path.abspath(__file__)))
BUILD_ROOT = os.path.join(os.environ.get('VERIF_OUT') or VERIF, '.build')
PY = '/venv/bin/python'

SAN_CFLAGS = ('-O1 -g -fno-omit-frame-pointer -UNDEBUG '
              '-fsanitize=address,undefined -fno-sanitize-recover=undefined')


def _source_files():
    out = [os.path.join(REPO, 'setup.py')]
    for root in ('include', os.path.join('src', 'BTrees')):
        base = os.path.join(REPO, root)
        for dp, dn, fn in os.walk(base):
            dn[:] = sorted(d for d in dn if d not in ('tests', '__pycache__'))
            for f in sorted(fn):
                if f.endswith(('.c', '.h', '.py')):
                    out.append(os.path.join(dp, f))
    return out


def source_hash():
    h = hashlib.sha1()
    for p in _source_files():
        h.update(os.path.relpath(p, REPO).encode())
        h.update(b'\0')
        with open(p, 'rb') as f:
            h.update(f.read())
        h.update(b'\0')
    return h.hexdigest()[:16]


def san_env():
    """Environment additions needed to *run* the san variant."""
    asan = subprocess.check_output(['gcc', '-print-file-name=libasan.so'], text=True).strip()
    ubsan = subprocess.check_output(['gcc', '-print-file-name=libubsan.so'], text=True).strip()
    return {
        'LD_PRELOAD': asan + ':' + ubsan,
        'PYTHONMALLOC': 'malloc',
        'ASAN_OPTIONS': 'detect_leaks=0:abort_on_error=1:allocator_may_return_null=1:'
                        'handle_segv=1:symbolize=1',
        'UBSAN_OPTIONS': 'print_stacktrace=1:halt_on_error=1',
    }


def ensure(variant='rel', quiet=True):
    """Return the directory to put on sys.path; build if missing."""
    assert variant in ('rel', 'san')
    os.makedirs(BUILD_ROOT, exist_ok=True)
    h = source_hash()
    target = os.path.join(BUILD_ROOT, '%s-%s' % (variant, h))
    marker = os.path.join(target, '.complete')
    if os.path.exists(marker):
        return target
    lock = open(os.path.join(BUILD_ROOT, '.lock-' + variant), 'w')
    fcntl.flock(lock, fcntl.LOCK_EX)
    try:
        if os.path.exists(marker):
            return target
        tmp = tempfile.mkdtemp(prefix='%s-%s.tmp' % (variant, h), dir=BUILD_ROOT)
        try:
            env = dict(os.environ)
            env['BTREES_VERIF'] = '1'
            env.pop('PURE_PYTHON', None)
            if variant == 'san':
                env['CFLAGS'] = SAN_CFLAGS
                env['LDFLAGS'] = '-fsanitize=address,undefined'
            cmd = [PY, 'setup.py', '-q', 'build_ext', '-j16',
                   '--build-lib', os.path.join(tmp, 'lib'),
                   '--build-temp', os.path.join(tmp, 'tmp')]
            p = subprocess.run(cmd, cwd=REPO, env=env, stdout=subprocess.PIPE,
                               stderr=subprocess.STDOUT, text=True)
            pkg = os.path.join(tmp, 'lib', 'BTrees')
            sos = [f for f in os.listdir(pkg)] if os.path.isdir(pkg) else []
            if p.returncode != 0 or len([f for f in sos if f.endswith('.so')]) != 22:
                sys.stderr.write(p.stdout[-8000:])
                raise RuntimeError('build of %s variant failed (%d extension modules built)'
                                   % (variant, len(sos)))
            for f in os.listdir(os.path.join(REPO, 'src', 'BTrees')):
                if f.endswith('.py'):
                    shutil.copy2(os.path.join(REPO, 'src', 'BTrees', f), os.path.join(pkg, f))
            shutil.rmtree(os.path.join(tmp, 'tmp'), ignore_errors=True)
            # prune older builds of this variant
            for d in os.listdir(BUILD_ROOT):
                full = os.path.join(BUILD_ROOT, d)
                if d.startswith(variant + '-') and '.tmp' not in d and full != target:
                    shutil.rmtree(full, ignore_errors=True)
            os.rename(os.path.join(tmp, 'lib'), target)
            open(marker, 'w').write('ok\n')
        finally:
            shutil.rmtree(tmp, ignore_errors=True)
            # setup.py may leave an egg-info/build dir behind in the repo; never keep it
            for junk in ('build',):
                j = os.path.join(REPO, junk)
                if os.path.isdir(j) and not os.listdir(j):
                    os.rmdir(j)
        return target
    finally:
        fcntl.flock(lock, fcntl.LOCK_UN)
        lock.close()


if __name__ == '__main__':
    for v in (sys.argv[1:] or ['rel']):
        print(ensure(v))
