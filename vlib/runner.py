"""Check runner: shards over worker processes, write-ahead case journal, crash capture,
ddmin of crashing cases, known-findings filter, evidence writer, replay.

A property module (props/cNN.py) provides
    ID, LEVEL, RULE, ASSUMPTIONS, TECHNIQUE
    shards(tier, seed)      -> list of JSON dicts (optional key 'variant': 'rel'|'san')
    run_shard(shard, ctx)   -> runs cases through ctx (ctx.hyp / ctx.begin+ctx.ok)
    replay(case, ctx)       -> re-executes one case; raises Violation if it still fails
"""
import collections
import hashlib
import importlib
import json
import os
import shutil
import signal
import subprocess
import sys
import time
import traceback

VERIF = os.path.dirname(os.path.dirname(os.path.abspath(__file__)))
# where evidence/, replays/ and .build/ go.  /verif itself for every registered command; tools/matrix.py points it
# at a scratch directory so that several changed copies of the repository can be checked side by side.
OUT = os.environ.get('VERIF_OUT') or VERIF
PY = '/venv/bin/python'
NPROC = int(os.environ.get('VERIF_NPROC', str(min(16, os.cpu_count() or 1))))


class Violation(Exception):
    """An oracle verdict: the property is violated by the current case."""

    def __init__(self, msg, sig=None):
        Exception.__init__(self, msg)
        self.msg = msg
        self.sig = dict(sig or {})


class Abandon(Exception):
    """The case ran into an *open known finding* that makes continuing it meaningless."""


def canon(obj):
    return json.dumps(obj, sort_keys=True, separators=(',', ':'), default=repr)


def case_hash(case):
    return hashlib.sha1(canon(case).encode()).hexdigest()[:14]


# ----------------------------------------------------------------------------- known findings

def load_known():
    # (triage only: VERIF_KNOWN_FILE points at an edited copy, e.g. to see what an open entry is hiding)
    p = os.environ.get('VERIF_KNOWN_FILE') or os.path.join(VERIF, 'known_findings.json')
    if not os.path.exists(p):
        return []
    with open(p) as f:
        return json.load(f).get('findings', [])


def match_known(known, pid, sig):
    """Return the open finding whose 'match' dict is contained in sig, or None."""
    for e in known:
        if e.get('status') != 'open' or (e.get('property') != pid and pid not in e.get('also', ())):
            continue
        m = e.get('match') or {}
        if m and all(_sig_eq(sig.get(k), v) for k, v in m.items()):
            return e
    return None


def _sig_eq(have, want):
    if isinstance(want, list):
        return have in want
    return have == want


# ----------------------------------------------------------------------------- worker side

class Ctx:
    def __init__(self, pid, shard, journal, tier, seed):
        self.pid = pid
        self.shard = shard
        self.journal = journal
        self._jfd = None
        self._jlen = 0
        self.tier = tier
        self.seed = seed
        self.known_list = load_known()
        self.evaluations = 0
        self.nontrivial = set()
        self.bulk_nontrivial = 0
        self.classes = collections.Counter()
        self.known_hits = collections.Counter()
        self.excluded = collections.Counter()
        self.samples = []          # (size, case)
        self.violation = None      # {'case','msg','sig'}
        self.replaying = False
        self.collect = bool(os.environ.get('VERIF_COLLECT'))
        self.collected = {}        # canon(sig) -> [count, first message]

    # -- journal
    def begin(self, case):
        # write-ahead journal: the case about to run, in place through one descriptor (two system calls; the data
        # is in the page cache before the case starts, which is all a dying worker's parent needs).  The length
        # prefix lets the parent discard a torn record.
        if self.journal:
            if self._jfd is None:
                self._jfd = os.open(self.journal, os.O_WRONLY | os.O_CREAT | os.O_TRUNC, 0o644)
            body = canon(case).encode()
            rec = b'%012d\n' % len(body) + body
            os.pwrite(self._jfd, rec, 0)
            if len(rec) < self._jlen:
                os.ftruncate(self._jfd, len(rec))
            self._jlen = len(rec)

    def end(self):
        if self._jfd is not None:
            os.close(self._jfd)
            self._jfd = None
        if self.journal and os.path.exists(self.journal):
            os.unlink(self.journal)

    # -- bookkeeping
    def ok(self, case, nontrivial=False, classes=()):
        self.evaluations += 1
        for c in classes:
            self.classes[c] += 1
        if nontrivial:
            h = case_hash(case)
            if h not in self.nontrivial:
                self.nontrivial.add(h)
                self._sample(case)

    def ok_bulk(self, n_eval, n_nontrivial_distinct, classes=None, sample=None):
        """For enumerated spaces whose points are distinct by construction."""
        self.evaluations += n_eval
        self.bulk_nontrivial += n_nontrivial_distinct
        for c, n in (classes or {}).items():
            self.classes[c] += n
        if sample is not None:
            self._sample(sample)

    def _sample(self, case):
        size = len(canon(case))
        if size > 6000:
            return
        self.samples.append((size, case))
        if len(self.samples) > 40:
            self.samples.sort(key=lambda t: t[0])
            n = len(self.samples)
            self.samples = [self.samples[0], self.samples[n // 4], self.samples[n // 2],
                            self.samples[-1]]

    def count(self, cls, n=1):
        self.classes[cls] += n

    def exclude(self, what, n=1):
        self.excluded[what] += n

    # -- known findings
    def known(self, sig):
        e = match_known(self.known_list, self.pid, sig)
        if e is not None:
            self.known_hits[e['id']] += 1
            return e['id']
        return None

    def mismatch(self, msg, sig, recoverable=True):
        """Oracle disagreement.  Known open finding: count it and continue (or abandon the
        case); otherwise a violation."""
        if self.known(sig):
            if recoverable:
                return
            raise Abandon()
        if self.collect:
            # triage mode: enumerate root causes instead of stopping at the first one
            e = self.collected.setdefault(canon(sig), [0, msg])
            e[0] += 1
            if recoverable:
                return
            raise Abandon()
        raise Violation(msg, sig)

    # -- Hypothesis driver
    def hseed(self, label=''):
        s = '%s|%s|%s|%s' % (self.seed, self.pid, self.shard.get('index', 0), label)
        return int(hashlib.sha1(s.encode()).hexdigest()[:12], 16)

    def hyp(self, strategy, fn, max_examples, label='', shrink=True):
        """Drive fn(case, ctx) -> (nontrivial, classes) with Hypothesis."""
        from hypothesis import HealthCheck, Phase, given, seed, settings
        last = {}
        phases = (Phase.generate, Phase.shrink) if shrink else (Phase.generate,)

        @seed(self.hseed(label))
        @settings(max_examples=max_examples, database=None, deadline=None,
                  derandomize=False, report_multiple_bugs=False,
                  suppress_health_check=list(HealthCheck), phases=phases)
        @given(strategy)
        def test(case):
            self.begin(case)
            try:
                r = _verdicts(fn, case, self)
            except Abandon:
                self.ok(case, False, ('abandoned_known_finding',))
                return
            except Violation as v:
                last['case'] = case
                last['v'] = v
                raise
            if r is None:
                r = (False, ())
            self.ok(case, r[0], r[1])

        try:
            test()
        except Violation:
            pass
        except BaseException as e:  # Flaky etc.
            if 'v' not in last:
                raise
            last['note'] = 'hypothesis raised %s' % type(e).__name__
        if 'v' in last:
            self.violation = {'case': last['case'], 'msg': last['v'].msg, 'sig': last['v'].sig}
            return False
        return True

    def run_case(self, case, fn):
        """Run one explicit case (enumeration / corpus)."""
        self.begin(case)
        try:
            r = _verdicts(fn, case, self)
        except Abandon:
            self.ok(case, False, ('abandoned_known_finding',))
            return True
        except Violation as v:
            self.violation = {'case': case, 'msg': v.msg, 'sig': v.sig}
            return False
        if r is None:
            r = (False, ())
        self.ok(case, r[0], r[1])
        return True

    def result(self):
        self.samples.sort(key=lambda t: t[0])
        return {
            'evaluations': self.evaluations,
            'nontrivial': sorted(self.nontrivial),
            'bulk_nontrivial': self.bulk_nontrivial,
            'classes': dict(self.classes),
            'known': dict(self.known_hits),
            'excluded': dict(self.excluded),
            'samples': [c for _, c in self.samples],
            'violation': self.violation,
            'collected': self.collected,
        }


def _verdicts(fn, case, ctx):
    """Run fn; exceptions that declare themselves oracle verdicts (walker.WalkError: the state of
    a container breaks the documented layout) become Violations."""
    try:
        return fn(case, ctx)
    except (Violation, Abandon):
        raise
    except Exception as e:
        if getattr(e, 'is_verdict', False):
            raise Violation('independent walk: %s' % (e,), {'what': 'walk', 'uncaught': True})
        raise


_PYCOV = {}


def _start_pycov():
    """tools/coverage.py --py: record which lines of the pure-Python implementation run (sys.settrace,
    restricted to BTrees/*.py of the build directory)"""
    def local(frame, event, arg):
        if event == 'line':
            _PYCOV[frame.f_code.co_filename].add(frame.f_lineno)
        return local

    def tracer(frame, event, arg):
        fn = frame.f_code.co_filename
        if '/BTrees/' in fn and '/tests/' not in fn:
            if fn not in _PYCOV:
                _PYCOV[fn] = set()
            _PYCOV[fn].add(frame.f_lineno)
            return local
        return None
    sys.settrace(tracer)


def worker_main(argv):
    # argv: pid shardfile outfile journal tier seed
    pid, shardfile, outfile, journal, tier, seed = argv[:6]
    bdirs = [d for d in os.environ.get('VERIF_BUILD', '').split(':') if d]
    sys.path[0:0] = bdirs + [VERIF]
    sys.setrecursionlimit(10000)
    with open(shardfile) as f:
        shard = json.load(f)
    pycov = os.environ.get('VERIF_PYCOV')
    if pycov:
        _start_pycov()
    ctx = Ctx(pid, shard, journal, tier, int(seed))
    out = {}
    try:
        prop = importlib.import_module('props.' + pid.lower())
        if shard.get('kind') == 'replay':
            ctx.replaying = True
            for case in shard['cases']:
                ctx.begin(case)
                try:
                    _verdicts(lambda c, x: prop.replay(c, x), case, ctx)
                    ctx.ok(case, False, ('corpus_replayed',))
                except Abandon:
                    ctx.ok(case, False, ('corpus_replayed', 'abandoned_known_finding'))
                except Violation as v:
                    ctx.violation = {'case': case, 'msg': v.msg, 'sig': v.sig}
                    break
        else:
            prop.run_shard(shard, ctx)
        ctx.end()
        out = ctx.result()
    except BaseException:
        out = ctx.result()
        out['error'] = traceback.format_exc()
    tmp = outfile + '.tmp'
    with open(tmp, 'w') as f:
        json.dump(out, f, default=repr)
    os.replace(tmp, outfile)
    sys.stdout.flush()
    if pycov:
        sys.settrace(None)
        with open(os.path.join(pycov, '%d.json' % os.getpid()), 'w') as f:
            json.dump({k: sorted(v) for k, v in _PYCOV.items()}, f)
    if os.environ.get('VERIF_COV'):
        sys.exit(3 if 'error' in out else 0)       # normal exit: lets gcov write its counters
    os._exit(3 if 'error' in out else 0)


# ----------------------------------------------------------------------------- parent side

def _worker_env(variant, build_dirs):
    from . import build
    env = dict(os.environ)
    env['PYTHONHASHSEED'] = '0'
    env['VERIF_BUILD'] = build_dirs[variant]
    env.pop('PURE_PYTHON', None)
    env['PYTHONDONTWRITEBYTECODE'] = '1'
    if variant == 'san' and not os.environ.get('VERIF_BUILD_OVERRIDE'):
        env.update(build.san_env())
    return env


def _spawn(pid, shard, idx, workdir, tier, seed, build_dirs):
    shardfile = os.path.join(workdir, 'shard-%d.json' % idx)
    with open(shardfile, 'w') as f:
        json.dump(shard, f)
    outfile = os.path.join(workdir, 'shard-%d.result.json' % idx)
    journal = os.path.join(workdir, 'shard-%d.current' % idx)
    logf = open(os.path.join(workdir, 'shard-%d.log' % idx), 'w')
    for p in (outfile, journal):
        if os.path.exists(p):
            os.unlink(p)
    variant = shard.get('variant', 'rel')
    proc = subprocess.Popen(
        [PY, os.path.join(VERIF, 'check'), '--worker', pid, shardfile, outfile, journal, tier, str(seed)],
        cwd=VERIF, env=_worker_env(variant, build_dirs), stdout=logf, stderr=subprocess.STDOUT)
    return {'proc': proc, 'out': outfile, 'journal': journal, 'log': logf.name, 'shard': shard,
            'idx': idx, 'logf': logf}


def run_shards(pid, shards, workdir, tier, seed, build_dirs, nproc=NPROC, timeout=None):
    """Run all shards; return list of (shard, result-or-None, rc, journal_case, logtail)."""
    pending = list(enumerate(shards))
    running = []
    done = []
    t0 = time.time()
    while pending or running:
        while pending and len(running) < nproc:
            idx, sh = pending.pop(0)
            running.append(_spawn(pid, sh, idx, workdir, tier, seed, build_dirs))
        time.sleep(0.05)
        for r in list(running):
            rc = r['proc'].poll()
            if rc is None:
                if timeout and time.time() - t0 > timeout:
                    r['proc'].kill()
                continue
            running.remove(r)
            r['logf'].close()
            res = None
            if os.path.exists(r['out']):
                with open(r['out']) as f:
                    res = json.load(f)
            jcase = None
            if os.path.exists(r['journal']):
                try:
                    with open(r['journal'], 'rb') as f:
                        n = int(f.readline())
                        body = f.read(n)
                    jcase = json.loads(body) if len(body) == n else None
                except Exception:
                    jcase = None
            with open(r['log'], errors='replace') as f:
                tail = f.read()[-6000:]
            done.append((r['shard'], res, rc, jcase, tail))
    done.sort(key=lambda t: shards.index(t[0]) if t[0] in shards else 0)
    return done


def _run_single(pid, case, variant, workdir, tier, seed, build_dirs, timeout=600):
    """Replay one case in a fresh worker.  Returns ('ok'|'violation'|'crash'|'error', info)."""
    os.makedirs(workdir, exist_ok=True)
    sh = {'kind': 'replay', 'cases': [case], 'variant': variant, 'index': 0}
    (shard, res, rc, jcase, tail), = run_shards(pid, [sh], workdir, tier, seed, build_dirs,
                                                nproc=1, timeout=timeout)
    if res is None:
        return 'crash', {'rc': rc, 'log': tail}
    if 'error' in res:
        return 'error', res['error']
    if res.get('violation'):
        return 'violation', res['violation']
    return 'ok', res


def ddmin_crash(pid, case, variant, workdir, tier, seed, build_dirs, budget=120):
    """Minimise case['ops'] (if present) while the worker still crashes."""
    if not isinstance(case, dict) or not isinstance(case.get('ops'), list):
        return case
    ops = case['ops']
    runs = [0]

    def crashes(sub):
        runs[0] += 1
        c = dict(case)
        c['ops'] = sub
        st, _ = _run_single(pid, c, variant, workdir, tier, seed, build_dirs, timeout=120)
        return st == 'crash'

    n = 2
    while len(ops) >= 2 and runs[0] < budget:
        chunk = max(1, len(ops) // n)
        reduced = False
        for i in range(0, len(ops), chunk):
            sub = ops[:i] + ops[i + chunk:]
            if sub and crashes(sub):
                ops = sub
                n = max(n - 1, 2)
                reduced = True
                break
            if runs[0] >= budget:
                break
        if not reduced:
            if chunk == 1:
                break
            n = min(len(ops), n * 2)
    c = dict(case)
    c['ops'] = ops
    return c


def write_replay(pid, case, variant, msg, sig, kind):
    d = os.path.join(OUT, 'replays')
    os.makedirs(d, exist_ok=True)
    body = {'property': pid, 'variant': variant, 'kind': kind, 'message': msg, 'sig': sig,
            'case': case}
    path = os.path.join(d, '%s-%s.json' % (pid, case_hash(case)))
    with open(path, 'w') as f:
        json.dump(body, f, indent=1, default=repr)
    return path


def corpus_cases(pid):
    d = os.path.join(VERIF, 'corpus', pid)
    out = []
    if os.path.isdir(d):
        for fn in sorted(os.listdir(d)):
            if fn.endswith('.json'):
                with open(os.path.join(d, fn)) as f:
                    body = json.load(f)
                out.append((fn, body))
    return out


def build_all(variants):
    from . import build
    over = os.environ.get('VERIF_BUILD_OVERRIDE')     # tools/coverage.py: one instrumented build for all variants
    if over:
        return {v: over for v in set(variants)}
    return {v: build.ensure(v) for v in sorted(set(variants))}


def main_check(pid, tier):
    t0 = time.time()
    seed = int(os.environ.get('VERIF_SEED', '1') or '1')
    sys.path.insert(0, VERIF)
    prop = importlib.import_module('props.' + pid.lower())
    known = load_known()
    workdir = os.path.join(OUT, 'evidence', '.work', '%s-%d' % (pid, os.getpid()))
    shutil.rmtree(workdir, ignore_errors=True)
    os.makedirs(workdir)
    try:
        shards = prop.shards(tier, seed)
        for i, sh in enumerate(shards):
            sh.setdefault('index', i)
            sh.setdefault('variant', 'rel')
        # corpus replay shards, one per variant used in the corpus
        byvar = collections.defaultdict(list)
        for fn, body in corpus_cases(pid):
            byvar[body.get('variant', 'rel')].append(body['case'])
        cshards = [{'kind': 'replay', 'cases': cs, 'variant': v, 'index': 1000 + i}
                   for i, (v, cs) in enumerate(sorted(byvar.items()))]
        allshards = cshards + shards
        try:
            build_dirs = build_all([s['variant'] for s in allshards])
        except Exception as e:
            print('HARNESS-ERROR: build failed: %s' % e)
            return 2
        results = run_shards(pid, allshards, workdir, tier, seed, build_dirs)

        evaluations = 0
        hashes = set()
        bulk = 0
        classes = collections.Counter()
        knownhits = collections.Counter()
        excluded = collections.Counter()
        samples = []
        violations = []
        errors = []
        for shard, res, rc, jcase, tail in results:
            if res is not None:
                evaluations += res['evaluations']
                hashes.update(res['nontrivial'])
                bulk += res['bulk_nontrivial']
                classes.update(res['classes'])
                knownhits.update(res['known'])
                excluded.update(res['excluded'])
                samples.extend(res['samples'])
                if res.get('error'):
                    errors.append((shard, res['error']))
                if res.get('violation'):
                    v = res['violation']
                    violations.append({'case': v['case'], 'msg': v['msg'], 'sig': v['sig'],
                                       'variant': shard['variant'], 'kind': 'oracle'})
            else:
                # worker died without a result: crash (signal, sanitizer abort, assert)
                if jcase is None:
                    errors.append((shard, 'worker exited rc=%s with no result and no journal\n%s'
                                   % (rc, tail)))
                    continue
                small = ddmin_crash(pid, jcase, shard['variant'], os.path.join(workdir, 'ddmin'),
                                    tier, seed, build_dirs)
                violations.append({'case': small, 'variant': shard['variant'], 'kind': 'crash',
                                   'msg': 'worker process died (rc=%s) while running this case; '
                                          'log tail:\n%s' % (rc, tail[-3000:]),
                                   'sig': {'crash': True}})
        collected = {}
        for shard, res, rc, jcase, tail in results:
            for k, (n, msg) in ((res or {}).get('collected') or {}).items():
                e = collected.setdefault(k, [0, msg])
                e[0] += n
        if collected:
            print('TRIAGE (VERIF_COLLECT): %d distinct signatures' % len(collected))
            for k, (n, msg) in sorted(collected.items(), key=lambda kv: -kv[1][0]):
                print('  %6d x %s\n           %s' % (n, k, msg[:400].replace('\n', ' ')))
            violations.append({'case': {'triage': True}, 'msg': 'triage mode', 'sig': {'triage': True},
                               'variant': 'rel', 'kind': 'oracle'})
        wall = time.time() - t0
        samples.sort(key=lambda c: len(canon(c)))
        if len(samples) > 3:
            samples = [samples[0], samples[len(samples) // 2], samples[-1]]
        nontriv = len(hashes) + bulk
        ev = {
            'property_id': pid,
            'tier': tier,
            'seed': seed,
            'level': prop.LEVEL,
            'coverage': {
                'evaluations': evaluations,
                'distinct_nontrivial': nontriv,
                'rule': prop.RULE,
                'samples': samples,
                'classes': dict(sorted(classes.items())),
                'known_findings': dict(knownhits),
                'excluded_by_construction': dict(excluded),
                'exhaustive': bool(getattr(prop, 'EXHAUSTIVE', {}).get(tier, False)),
                'exhaustive_space': getattr(prop, 'EXHAUSTIVE_SPACE', ''),
                'shards': len(allshards),
                'technique': getattr(prop, 'TECHNIQUE', ''),
            },
            'assumptions': list(prop.ASSUMPTIONS),
            'wall_s': round(wall, 2),
            'violations': len(violations),
        }
        os.makedirs(os.path.join(OUT, 'evidence'), exist_ok=True)
        with open(os.path.join(OUT, 'evidence', pid + '.json'), 'w') as f:
            json.dump(ev, f, indent=1, default=repr)
            f.write('\n')

        if errors:
            for shard, err in errors:
                print('HARNESS-ERROR: property=%s shard=%s\n%s' % (pid, shard.get('index'), err))
            return 2
        for fid, n in sorted(knownhits.items()):
            e = [k for k in known if k['id'] == fid][0]
            print('KNOWN-FINDING: property=%s %s [%s, hit %d times]' % (pid, e['what'], fid, n))
        seen = set()
        for v in violations:
            key = canon(v['sig']) if v['kind'] == 'oracle' else case_hash(v['case'])
            if key in seen:
                continue
            seen.add(key)
            path = write_replay(pid, v['case'], v['variant'], v['msg'], v['sig'], v['kind'])
            print('VIOLATION property=%s replay=%s' % (pid, path))
            print('  ' + v['msg'].replace('\n', '\n  ')[:3000])
        print('%s %s: evaluations=%d distinct_nontrivial=%d known=%d violations=%d wall=%.1fs'
              % (pid, tier, evaluations, nontriv, sum(knownhits.values()), len(violations), wall))
        return 1 if violations else 0
    finally:
        shutil.rmtree(workdir, ignore_errors=True)


def main_replay(pid, path):
    sys.path.insert(0, VERIF)
    seed = int(os.environ.get('VERIF_SEED', '1') or '1')
    with open(path) as f:
        body = json.load(f)
    variant = body.get('variant', 'rel')
    workdir = os.path.join(OUT, 'evidence', '.work', '%s-replay-%d' % (pid, os.getpid()))
    shutil.rmtree(workdir, ignore_errors=True)
    try:
        build_dirs = build_all([variant])
        st, info = _run_single(pid, body['case'], variant, workdir, 'quick', seed, build_dirs)
        if st == 'ok':
            for fid, n in sorted(info['known'].items()):
                print('KNOWN-FINDING: property=%s %s' % (pid, fid))
            print('replay: no violation')
            return 0
        if st == 'error':
            print('HARNESS-ERROR:\n%s' % info)
            return 2
        print('VIOLATION property=%s replay=%s' % (pid, os.path.abspath(path)))
        if st == 'violation':
            print('  ' + info['msg'].replace('\n', '\n  ')[:3000])
        else:
            print('  worker crashed rc=%s\n%s' % (info['rc'], info['log'][-3000:]))
        return 1
    finally:
        shutil.rmtree(workdir, ignore_errors=True)


def main(argv):
    if argv and argv[0] == '--worker':
        worker_main(argv[1:])
        return 0
    if len(argv) == 3 and argv[1] == '--replay':
        return main_replay(argv[0].upper(), argv[2])
    if len(argv) == 2 and argv[1] in ('quick', 'thorough'):
        return main_check(argv[0].upper(), argv[1])
    print('usage: check <ID> quick|thorough | check <ID> --replay <file>')
    return 2
