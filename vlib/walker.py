"""Independent structure walk of a BTree / TreeSet (and of Buckets / Sets), using only the
documented ``__getstate__`` layouts (BTreeTemplate.c "BTree.__getstate__() docs", check.py)
and the ``_firstbucket`` attribute both implementations expose.

    tree state   None                                        empty
                 ((leafstate,),)                             one embedded leaf
                 ((child0, key1, child1, ...), firstbucket)
    leaf state   ((k, v, k, v, ...)[, next])  mapping        ((k, k, ...)[, next])  set

Nothing private (_data, _keys, ...) is read, so refactoring either implementation cannot
make the walker fail.
"""
from .families import sortkey


class WalkError(Exception):
    """The container's state breaks the documented layout or one of the structural invariants.
    Escaping from a property's case function it is an oracle verdict, not a harness error."""
    is_verdict = True


class Leaf:
    __slots__ = ('obj', 'keys', 'values', 'next', 'depth', 'lo', 'hi', 'embedded', 'parent',
                 'parent_is_root', 'parent_nkids')


class Walk:
    """Result of walking one container."""

    def __init__(self):
        self.leaves = []        # Leaf, in descent order
        self.interior = []      # (obj, depth, n_children)
        self.height = 0         # 0 empty, 1 = root over leaves, ...
        self.empty = False
        self.root_children = 0
        self.embedded_root = False

    @property
    def keys(self):
        out = []
        for lf in self.leaves:
            out.extend(lf.keys)
        return out

    @property
    def items(self):
        out = []
        for lf in self.leaves:
            out.extend(zip(lf.keys, lf.values))
        return out

    def leaf_ids(self):
        return [id(lf.obj) for lf in self.leaves]

    def shape(self):
        """Skeleton: nested lists of leaf sizes."""
        return self._shape


def _lt(a, b):
    return sortkey(a) < sortkey(b)


def crack_leaf(obj, is_map, state=None):
    st = obj.__getstate__() if state is None else state
    if not isinstance(st, tuple) or not 1 <= len(st) <= 2 or not isinstance(st[0], tuple):
        raise WalkError('leaf state has unexpected form: %r' % (st,))
    data = st[0]
    nxt = st[1] if len(st) == 2 else None
    if is_map:
        if len(data) % 2:
            raise WalkError('mapping leaf state of odd length')
        return list(data[0::2]), list(data[1::2]), nxt
    return list(data), [], nxt


def walk(tree, is_map, max_leaf=None, max_internal=None, check=True):
    """Walk a BTree/TreeSet.  With check=True raise WalkError on the first broken invariant of
    property C03's list; size bounds are checked when max_leaf/max_internal are given."""
    w = Walk()
    tree_type = type(tree)
    state = tree.__getstate__()
    if state is None:
        w.empty = True
        w._shape = None
        if check:
            if getattr(tree, '_firstbucket', None) is not None:
                raise WalkError('empty tree has a firstbucket')
            if len(tree) != 0 or bool(tree):
                raise WalkError('state None but len/bool say non-empty')
        return w

    def err(msg):
        if check:
            raise WalkError(msg)

    def visit(node, st, depth, lo, hi, is_root):
        # returns (shape, first_leaf_obj_or_None)
        if not isinstance(st, tuple) or not 1 <= len(st) <= 2:
            raise WalkError('tree state has unexpected form: %r' % (st,))
        if len(st) == 1:
            # embedded single leaf
            inner = st[0]
            if not isinstance(inner, tuple) or len(inner) != 1:
                raise WalkError('embedded form is not ((leafstate,),)')
            lf = Leaf()
            lf.obj = getattr(node, '_firstbucket', None)
            lf.keys, lf.values, lf.next = crack_leaf(None, is_map, inner[0])
            lf.depth, lf.lo, lf.hi, lf.embedded = depth + 1, lo, hi, True
            lf.parent, lf.parent_is_root, lf.parent_nkids = node, is_root, 1
            w.leaves.append(lf)
            w.interior.append((node, depth, 1))
            if is_root:
                w.root_children = 1
                w.embedded_root = True
            if lf.obj is None:
                err('node with embedded leaf has no firstbucket')
            w.height = max(w.height, depth + 1)
            return [len(lf.keys)], lf.obj
        data, first = st
        if not isinstance(data, tuple) or len(data) % 2 != 1:
            raise WalkError('children tuple has even length')
        kids = list(data[0::2])
        seps = list(data[1::2])
        if is_root:
            w.root_children = len(kids)
        w.interior.append((node, depth, len(kids)))
        if check:
            if not kids:
                raise WalkError('interior node without children')
            for a, b in zip(seps, seps[1:]):
                if not _lt(a, b):
                    raise WalkError('separators not strictly increasing: %r, %r' % (a, b))
            for s in seps:
                if lo is not _NOBOUND and _lt(s, lo):
                    raise WalkError('separator %r below the lower bound %r of its node' % (s, lo))
                if hi is not _NOBOUND and not _lt(s, hi):
                    raise WalkError('separator %r not below the upper bound %r of its node' % (s, hi))
            if max_internal is not None:
                limit = 2 * max_internal - 1 if is_root else max_internal
                if len(kids) > limit:
                    raise WalkError('interior node with %d children (limit %d, root=%s)'
                                    % (len(kids), limit, is_root))
        kinds = set()
        shapes = []
        first_leaf = None
        for i, kid in enumerate(kids):
            klo = seps[i - 1] if i > 0 else lo
            khi = seps[i] if i < len(seps) else hi
            if type(kid) is tree_type:
                kinds.add('interior')
                kst = kid.__getstate__()
                if kst is None:
                    err('empty interior node inside a non-empty tree')
                    shapes.append([])
                    continue
                sh, fl = visit(kid, kst, depth + 1, klo, khi, False)
                shapes.append(sh)
                if check and getattr(kid, '_firstbucket', None) is not fl:
                    raise WalkError("interior node's firstbucket is not its leftmost leaf")
            else:
                kinds.add('leaf')
                lf = Leaf()
                lf.obj = kid
                lf.keys, lf.values, lf.next = crack_leaf(kid, is_map)
                lf.depth, lf.lo, lf.hi, lf.embedded = depth + 1, klo, khi, False
                lf.parent, lf.parent_is_root, lf.parent_nkids = node, is_root, len(kids)
                w.leaves.append(lf)
                w.height = max(w.height, depth + 1)
                shapes.append(len(lf.keys))
                fl = kid
            if i == 0:
                first_leaf = fl
        if len(kinds) > 1:
            err('children of one node are of different kinds')
        if check and first is not first_leaf:
            raise WalkError('firstbucket in state is not the leftmost leaf reached by descent')
        return shapes, first_leaf

    w._shape, first_leaf = visit(tree, state, 0, _NOBOUND, _NOBOUND, True)
    if not check:
        return w
    if getattr(tree, '_firstbucket', None) is not first_leaf:
        raise WalkError("root's _firstbucket is not the leftmost leaf")
    bucket_type = getattr(tree, '_bucket_type', None)
    # leaves: non-empty, sorted, within bounds, of the leaf type, size bound
    prev = _NOBOUND
    for lf in w.leaves:
        if not lf.keys:
            raise WalkError('empty leaf in a non-empty tree')
        if bucket_type is not None and lf.obj is not None and not isinstance(lf.obj, bucket_type):
            raise WalkError('leaf child is not of the tree\'s leaf type: %r' % (type(lf.obj),))
        for k in lf.keys:
            if prev is not _NOBOUND and not _lt(prev, k):
                raise WalkError('keys not strictly ascending across the leaves: %r then %r' % (prev, k))
            prev = k
            if lf.lo is not _NOBOUND and _lt(k, lf.lo):
                raise WalkError('key %r below the range promised by the separators (>= %r)' % (k, lf.lo))
            if lf.hi is not _NOBOUND and not _lt(k, lf.hi):
                raise WalkError('key %r not below the range promised by the separators (< %r)' % (k, lf.hi))
        if max_leaf is not None and len(lf.keys) > max_leaf:
            raise WalkError('leaf with %d entries (max_leaf_size %d)' % (len(lf.keys), max_leaf))
    # chain: identical objects, in order, ends where the tree ends
    for a, b in zip(w.leaves, w.leaves[1:]):
        if a.next is not b.obj:
            raise WalkError('leaf chain does not lead to the next leaf reached by descent')
    if w.leaves[-1].next is not None:
        raise WalkError('last leaf has a successor')
    # walking the chain through the objects themselves gives the same leaves
    if not w.leaves[0].embedded or w.leaves[0].obj is not None:
        b = first_leaf
        n = 0
        while b is not None:
            if n >= len(w.leaves) or (w.leaves[n].obj is not b):
                raise WalkError('chain from firstbucket visits a leaf that descent does not')
            n += 1
            b = getattr(b, '_next', None)
        if n != len(w.leaves):
            raise WalkError('chain from firstbucket ends early (%d of %d leaves)' % (n, len(w.leaves)))
    return w


class _NoBound:
    def __repr__(self):
        return '<unbounded>'


_NOBOUND = _NoBound()


def shape_of(tree, is_map):
    """(height, n_leaves, leaf ids, root_children, single_interior_root_child)."""
    w = walk(tree, is_map, check=False)
    return w


def skeleton(obj, is_map, is_tree):
    """Recursive skeleton of the serialized state: structure + keys/values, no identities."""
    if not is_tree:
        st = obj.__getstate__()
        return ('leaf', st[0], len(st) == 2)
    tree_type = type(obj)

    def rec(node):
        st = node.__getstate__()
        if st is None:
            return None
        if len(st) == 1:
            return ('embedded', st[0][0][0])
        data = st[0]
        out = []
        for i, x in enumerate(data):
            if i % 2:
                out.append(x)
            elif type(x) is tree_type:
                out.append(rec(x))
            else:
                lst = x.__getstate__()
                out.append(('leaf', lst[0], len(lst) == 2))
        return ('node', tuple(out))

    return rec(obj)


def f16_pending(w):
    """True when some non-root interior node has exactly one leaf child that has no oid yet:
    its state embeds the leaf while the preceding leaf's successor link stores it as an object
    (open finding F16)."""
    for lf in w.leaves:
        if lf.parent_nkids == 1 and not lf.parent_is_root:
            if getattr(lf.obj, '_p_oid', None) is None:
                return True
    return False


def descent_path(tree, key):
    """Interior nodes (tree-type objects, root first) that a search for ``key`` descends
    through, computed from the separators in the documented state layout."""
    tt = type(tree)
    path = []
    node = tree
    while True:
        st = node.__getstate__()
        path.append(node)
        if st is None or len(st) == 1:
            return path
        data = st[0]
        kids = data[0::2]
        seps = data[1::2]
        i = 0
        for j, s in enumerate(seps):
            if sortkey(s) <= sortkey(key):
                i = j + 1
            else:
                break
        child = kids[i]
        if type(child) is not tt:
            return path
        node = child
