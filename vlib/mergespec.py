"""Executable specification of three-way leaf merge (oracle of C07), written from the
property text and the comments in Interfaces.py / MergeTemplate.c:59-87 - not from the merge
loops.

A leaf state is None (empty) or ``(data,)`` / ``(data, next)`` with data = (k, v, k, v, ...)
for mappings and (k, k, ...) for sets.

    decide(old, com, new, is_map) -> ('merge', state) | ('refuse', why)
"""
from .families import sortkey

_MISSING = object()


def parse(state, is_map):
    if state is None:
        return {}, None
    data = state[0]
    nxt = state[1] if len(state) == 2 else None
    if is_map:
        return dict(zip(data[0::2], data[1::2])), nxt
    return dict((k, None) for k in data), nxt


def delta(old, t):
    """keys whose presence or value differs between old and t"""
    d = set()
    for k in set(old) | set(t):
        a = old.get(k, _MISSING)
        b = t.get(k, _MISSING)
        if a is _MISSING or b is _MISSING:
            if a is not b:
                d.add(k)
        elif not (a == b):
            d.add(k)
    return d


def same_link(a, b):
    if a is None or b is None:
        return a is b
    return a is b or a == b


def decide(old_s, com_s, new_s, is_map):
    old, onext = parse(old_s, is_map)
    com, cnext = parse(com_s, is_map)
    new, nnext = parse(new_s, is_map)
    if not same_link(onext, cnext) or not same_link(onext, nnext):
        return ('refuse', 'successor link differs')
    if not com or not new:
        return ('refuse', 'a transaction emptied the leaf')
    dc = delta(old, com)
    dn = delta(old, new)
    if dc & dn:
        return ('refuse', 'both transactions changed key(s) %r' % sorted(dc & dn, key=sortkey))
    if old:
        omin = min(old, key=sortkey)
        for t in (com, new):
            if sortkey(min(t, key=sortkey)) > sortkey(omin):
                return ('refuse', 'a transaction removed the smallest key and its minimum rose')
    merged = dict(old)
    for t, d in ((com, dc), (new, dn)):
        for k in d:
            if k in t:
                merged[k] = t[k]
            else:
                merged.pop(k, None)
    if not merged:
        return ('refuse', 'merge result is empty')
    ks = sorted(merged, key=sortkey)
    if is_map:
        data = []
        for k in ks:
            data.append(k)
            data.append(merged[k])
        data = tuple(data)
    else:
        data = tuple(ks)
    return ('merge', (data, onext) if onext is not None else (data,))
