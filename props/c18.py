"""C18 - the diagnostic checkers accept every valid tree and detect every corruption."""
import copy

from vlib import families as F
from vlib import histories as H
from vlib import treespec, walker
from vlib.runner import Violation

ID = 'C18'
LEVEL = 'exploration'
TECHNIQUE = ('Hypothesis-generated valid tree shapes (built through __setstate__, heights 1..5, stale '
             'separators, unequal depths) and API histories for acceptance; for detection a catalog of '
             'single corruptions enumerated at every applicable position of each shape, each confirmed '
             'as a real violation by the independent walker before the package checkers are asked; '
             'valid trees and every detected corruption are checked again stored in a mini-ZODB connection with all nodes evicted')
RULE = ('acceptance point: one valid tree checked by _check(), check.check() and the walker.  '
        'Detection point: one (valid shape, catalog entry, position) rebuilt through __setstate__; '
        'the walker must reject it (else the point is discarded as not-a-corruption), then check() or '
        '_check() must raise AssertionError.  Non-trivial: the corruption sits below the root of a '
        'tree of height >= 3.  Points are distinct by construction within a shape; shapes by JSON.')
ASSUMPTIONS = ['the walker (vlib/walker.py) defines what counts as a violation of the five invariant groups',
               'corruptions that __setstate__ itself refuses are counted, not judged',
               'len()/iteration are never called on corrupted trees (a looping chain would not terminate)']

FAMS = ['OO', 'II', 'LL', 'IO', 'OI', 'UU', 'QQ', 'fs', 'LF', 'OL']


def shards(tier, seed):
    n = {'quick': 30, 'thorough': 900}[tier]
    return [{'n': n, 'fams': F.rotate(FAMS, seed + i, 4 if tier == 'quick' else len(FAMS)),
             'nh': n * 4, 'max_ops': 40 if tier == 'quick' else 150} for i in range(16)]


def run_shard(shard, ctx):
    from hypothesis import strategies as st
    fams = shard['fams']

    @st.composite
    def spec_case(draw):
        fam = draw(st.sampled_from(fams))
        kind = draw(st.sampled_from(['BTree', 'TreeSet']))
        impl = draw(st.sampled_from(['c', 'py']))
        spec = draw(treespec.valid_specs(fam, max_keys=draw(st.sampled_from([6, 12, 20])),
                                         max_leaf=3, max_fan=3))
        return {'k': 'spec', 'cfg': {'fam': fam, 'kind': kind, 'impl': impl, 'ktype': 'int'}, 'spec': spec}

    if not ctx.hyp(spec_case(), run_spec_case, shard['n'], 'spec', shrink=False):
        return
    cfgs = F.configs(fams=fams, kinds=list(F.TREE_KINDS), sizes=F.SMALL_SIZES)
    strat = H.cases(cfgs, max_ops=shard['max_ops'], readonly_weight=0).map(lambda c: dict(c, k='hist'))
    ctx.hyp(strat, run_hist_case, shard['nh'], 'hist')


def replay(case, ctx):
    if case.get('k') == 'hist':
        return run_hist_case(case, ctx)
    if 'corruption' in case:
        cfg = case['cfg']
        _judge(case, ctx, cfg['fam'], cfg['kind'], cfg['impl'], case['spec'], case['corruption'], {}, replaying=True)
        return
    run_spec_case(case, ctx)


def _evicted(t, is_map):
    """the same tree stored in a mini-ZODB connection with every node evicted (None when it has the shape of open
    finding F16 and would not survive the commit): the checkers have to load what they look at"""
    from vlib import minizodb as Z
    if hasattr(t, '_firstbucket'):
        try:
            if walker.f16_pending(walker.walk(t, is_map, check=False)):
                return None
        except Exception:
            return None
    c = Z.Connection(Z.Storage())
    try:
        c.add(t)
        c.commit()
    except Exception:
        return None
    c.minimize()
    return c


def _accept(t, is_map, what, sig, evict=False):
    from BTrees import check as bcheck
    try:
        t._check()
    except Exception as e:
        raise Violation('%s: _check() rejects a valid tree: %s: %s' % (what, type(e).__name__, e),
                        dict(sig, what='valid-rejected', by='_check'))
    try:
        bcheck.check(t)
    except Exception as e:
        raise Violation('%s: check.check() rejects a valid tree: %s: %s' % (what, type(e).__name__, e),
                        dict(sig, what='valid-rejected', by='check'))
    try:
        w = walker.walk(t, is_map)
    except walker.WalkError as e:
        raise Violation('%s: the independent walker rejects a tree the harness built as valid: %s'
                        % (what, e), dict(sig, what='walker-rejects-valid'))
    if evict:
        conn = _evicted(t, is_map)
        if conn is not None:
            for name, f in (('_check', lambda: t._check()), ('check', lambda: bcheck.check(t))):
                conn.minimize()
                try:
                    f()
                except Exception as e:
                    raise Violation('%s: stored and evicted, %s() rejects the valid tree: %s: %s'
                                    % (what, name, type(e).__name__, e), dict(sig, what='valid-rejected', by=name, ghost=True))
    return w


def run_hist_case(case, ctx):
    cfg = case['cfg']
    with H.Live(cfg) as lv:
        sig = {'impl': lv.impl, 'kind': lv.kind}
        for i, op in enumerate(case['ops']):
            lv.step(op)
            if i % 3 == 2 or i == len(case['ops']) - 1:
                _accept(lv.t, lv.is_map, 'after step %d %r of a history on %s%s(%s)'
                        % (i, op, lv.fam, lv.kind, lv.impl), sig, evict=(i == len(case['ops']) - 1))
        lv.observe_shape()
        return lv.max_height >= 2, ('accept:history', 'height:%d' % lv.max_height)


# ----------------------------------------------------------------------------- corruption catalog

def _paths(spec, path=()):
    """yield (path, node) for every node of the spec"""
    yield path, spec
    if 'N' in spec:
        for i, c in enumerate(spec['N']):
            for x in _paths(c, path + (i,)):
                yield x


def _get(spec, path):
    for i in path:
        spec = spec['N'][i]
    return spec


def _bounds_of(spec, path):
    lo = hi = None
    node = spec
    for i in path:
        if i > 0:
            lo = node['S'][i - 1]
        if i < len(node['S']):
            hi = node['S'][i]
        node = node['N'][i]
    return lo, hi


def _posclass(spec, path):
    if not path:
        return 'root'
    node = spec
    left = right = True
    for i in path:
        if i != 0:
            left = False
        if i != len(node['N']) - 1:
            right = False
        node = node['N'][i]
    return 'leftmost' if left else ('rightmost' if right else 'interior')


def corruptions(spec):
    """All single corruptions of a valid spec: list of descriptors (JSON)."""
    out = []
    if spec is None or 'L' in spec:
        if spec is not None:
            for i in range(len(spec['L']) - 1):
                out.append({'c': 'swap_keys', 'path': [], 'i': i})
                out.append({'c': 'dup_key', 'path': [], 'i': i})
        return out
    leaves = treespec.leaves_of(spec)
    leaf_index = {}
    n = 0
    for path, node in _paths(spec):
        if 'L' in node:
            leaf_index[path] = n
            n += 1
    for path, node in _paths(spec):
        p = list(path)
        if 'L' in node:
            li = leaf_index[path]
            ks = node['L']
            for i in range(len(ks) - 1):
                if ks[i] is not None:
                    out.append({'c': 'swap_keys', 'path': p, 'i': i})
                    out.append({'c': 'dup_key', 'path': p, 'i': i})
            lo, hi = _bounds_of(spec, path)
            if hi is not None:
                out.append({'c': 'last_key_to_hi', 'path': p})
            if lo is not None:
                out.append({'c': 'first_key_below_lo', 'path': p})
            if li + 1 < len(leaves):
                out.append({'c': 'dup_across', 'path': p})
                out.append({'c': 'drop_next', 'path': p})
                out.append({'c': 'next_self', 'path': p, 'li': li})
                if li + 2 < len(leaves):
                    out.append({'c': 'next_skip', 'path': p, 'li': li})
            else:
                if li > 0:
                    out.append({'c': 'next_back', 'path': p, 'li': li})
            if len(leaves) > 1:
                out.append({'c': 'empty_leaf', 'path': p})
                out.append({'c': 'leaf_to_interior', 'path': p})
        else:
            for i in range(len(node['S'])):
                out.append({'c': 'sep_above_right_min', 'path': p, 'i': i})
                out.append({'c': 'sep_to_left_max', 'path': p, 'i': i})
                if i + 1 < len(node['S']):
                    out.append({'c': 'equal_seps', 'path': p, 'i': i})
            if len(leaves) > 1:
                out.append({'c': 'wrong_firstbucket', 'path': p})
            if path and 'N' in node:
                out.append({'c': 'empty_interior', 'path': p})
                if all('L' in c for c in node['N']):
                    out.append({'c': 'interior_to_leaf', 'path': p})
    return out


def apply(spec, cor):
    """Return the corrupted copy of spec (or None when not applicable after all)."""
    s = copy.deepcopy(spec)
    path = tuple(cor['path'])
    node = _get(s, path)
    c = cor['c']
    if c == 'swap_keys':
        i = cor['i']
        node['L'][i], node['L'][i + 1] = node['L'][i + 1], node['L'][i]
        if 'V' in node:
            node['V'][i], node['V'][i + 1] = node['V'][i + 1], node['V'][i]
    elif c == 'dup_key':
        node['L'][cor['i'] + 1] = node['L'][cor['i']]
    elif c == 'last_key_to_hi':
        node['L'][-1] = _bounds_of(spec, path)[1]
    elif c == 'first_key_below_lo':
        lo = _bounds_of(spec, path)[0]
        if lo is None or not isinstance(lo, int):
            return None
        node['L'][0] = lo - 1
    elif c == 'dup_across':
        leaves = treespec.leaves_of(s)
        i = [id(x) for x in leaves].index(id(node))
        leaves[i + 1]['L'][0] = node['L'][-1]
    elif c == 'drop_next':
        node['nx'] = None
    elif c == 'next_self':
        node['nx'] = cor['li']
    elif c == 'next_skip':
        node['nx'] = cor['li'] + 2
    elif c == 'next_back':
        node['nx'] = cor['li'] - 1
    elif c == 'empty_leaf':
        node['L'] = []
        node.pop('V', None)
    elif c == 'leaf_to_interior':
        parent = _get(s, path[:-1])
        if len(parent['N']) < 2:
            return None
        parent['N'][path[-1]] = {'N': [node], 'S': []}
    elif c == 'interior_to_leaf':
        parent = _get(s, path[:-1])
        if len(parent['N']) < 2:
            return None
        parent['N'][path[-1]] = {'L': treespec.keys_of(node)}
    elif c == 'sep_above_right_min':
        i = cor['i']
        rmin = treespec.keys_of(node['N'][i + 1])[0]
        if not isinstance(rmin, int):
            return None
        node['S'][i] = rmin + 1
    elif c == 'sep_to_left_max':
        i = cor['i']
        lmax = treespec.keys_of(node['N'][i])[-1]
        if lmax is None:
            return None
        node['S'][i] = lmax
    elif c == 'equal_seps':
        node['S'][cor['i'] + 1] = node['S'][cor['i']]
    elif c == 'wrong_firstbucket':
        leaves = treespec.leaves_of(s)
        sub = treespec.leaves_of(node)
        first = [id(x) for x in leaves].index(id(sub[0]))
        node['fb'] = first + 1 if first + 1 < len(leaves) else first - 1
    elif c == 'empty_interior':
        node['N'] = []
        node['S'] = []
    else:
        raise ValueError(c)
    return s


def _range_ok(fam, spec):
    """all key tokens representable in the family"""
    k = fam[0]
    lo, hi = F.BOUNDS.get(k, (None, None))
    if k == 'f':
        lo, hi = 0, 0xffff

    def toks(s):
        if 'L' in s:
            return list(s['L'])
        out = list(s['S'])
        for c in s['N']:
            out.extend(toks(c))
        return out
    for t in toks(spec):
        if t is None:
            if k != 'O':
                return False
        elif lo is not None and not lo <= t <= hi:
            return False
    return True


def run_spec_case(case, ctx):
    cfg = case['cfg']
    fam, kind, impl = cfg['fam'], cfg['kind'], cfg['impl']
    is_map = F.is_map(kind)
    spec = case['spec']
    t, _ = treespec.build(fam, kind, impl, spec)
    sig = {'impl': impl, 'kind': kind}
    w = _accept(t, is_map, 'valid shape %r as %s%s(%s)' % (spec, fam, kind, impl), sig, evict=True)
    height = w.height
    classes = {'accept:spec': 1, 'spec_height:%d' % min(height, 5): 1}
    n_eval = 1
    n_nt = 0
    sample = None
    for cor in corruptions(spec):
        r = _judge(case, ctx, fam, kind, impl, spec, cor, classes)
        if r is None:
            continue
        n_eval += 1
        if height >= 3 and cor['path']:
            n_nt += 1
            if sample is None:
                sample = {'cfg': cfg, 'spec': spec, 'corruption': cor}
    ctx.ok_bulk(n_eval - 1, n_nt, classes, sample=sample)
    return False, ()


def _judge(case, ctx, fam, kind, impl, spec, cor, classes, replaying=False):
    from BTrees import check as bcheck
    is_map = F.is_map(kind)

    def cnt(k):
        classes[k] = classes.get(k, 0) + 1

    bad = apply(spec, cor)
    if bad is None or not _range_ok(fam, bad):
        cnt('not_applicable:' + cor['c'])
        return None
    try:
        t, _ = treespec.build(fam, kind, impl, bad)
    except Exception as e:
        cnt('refused_by_setstate:%s:%s' % (cor['c'], type(e).__name__))
        return None
    try:
        walker.walk(t, is_map)
    except walker.WalkError:
        pass
    else:
        # not a violation of the five invariant groups: the catalog entry does not apply here
        cnt('walker_accepts:' + cor['c'])
        return None
    pos = _posclass(spec, tuple(cor['path']))
    caught = []
    other = []
    for name, f in (('_check', t._check), ('check', lambda: bcheck.check(t))):
        try:
            f()
        except AssertionError:
            caught.append(name)
        except Exception as e:
            other.append('%s:%s' % (name, type(e).__name__))
    cnt('%s@%s:%s' % (cor['c'], pos, '+'.join(caught) or 'MISSED'))
    if caught:
        # the same corrupted tree, stored and evicted: the checkers have to load the nodes they compare
        conn = _evicted(t, is_map)
        if conn is not None:
            gcaught = []
            for name, f in (('_check', lambda: t._check()), ('check', lambda: bcheck.check(t))):
                conn.minimize()
                try:
                    f()
                except AssertionError:
                    gcaught.append(name)
                except Exception:
                    pass
            cnt('evicted:%s' % ('+'.join(gcaught) or 'MISSED'))
            if not gcaught:
                ctx.mismatch('%s%s(%s): corruption %r of valid shape %r (-> %r) is detected (%s) while the nodes are in '
                             'memory, but accepted by both checkers once the tree is stored and its nodes are evicted'
                             % (fam, kind, impl, cor, spec, bad, '+'.join(caught)),
                             {'impl': impl, 'kind': kind, 'corruption': cor['c'], 'pos': pos, 'ghost': True})
    if not caught:
        ctx.mismatch('%s%s(%s): corruption %r of valid shape %r (-> %r) is accepted by both _check() '
                     'and check.check()%s' % (fam, kind, impl, cor, spec, bad,
                                              (' (other exceptions: %s)' % other) if other else ''),
                     {'impl': impl, 'kind': kind, 'corruption': cor['c'], 'pos': pos,
                      'other': '+'.join(other)})
    return True
