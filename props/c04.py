"""C04 - every change reaches the database: commit + reload reproduces the contents."""
import copy

from vlib import families as F
from vlib import histories as H
from vlib import minizodb as Z
from vlib import walker
from vlib.runner import Violation

ID = 'C04'
LEVEL = 'exploration'
TECHNIQUE = ('model-based stateful testing with generated transaction cuts: Hypothesis-generated '
             'histories with commit/abort after arbitrary operations run on a container registered with '
             'a mini-ZODB connection that writes exactly the objects that registered themselves (plus '
             'what becomes reachable from them); after every commit a fresh connection reloads the '
             'records and must see the writer\'s model in a sound tree; after every abort the writer\'s '
             'own objects must show the last committed contents; '
             'cache sweeps in mid-transaction (nodes with uncommitted changes must refuse to be evicted) and mutable object values changed in place and stored again are part of the histories')
RULE = ('a case is a configuration + history with commit/abort cuts.  Non-trivial: a commit whose '
        'transaction changed the structure (split, leaf unlink, root split, clear) of a tree whose nodes '
        'already had oids, or an abort after a mutation of a stored container.  Distinct = distinct JSON.')
ASSUMPTIONS = ['vlib/minizodb.py models ZODB\'s Connection/storage contract (register, setstate, '
               'commit of registered+reachable objects, abort = invalidate)',
               'Python classes are stored under their own names so that the reader loads Python nodes']


def shards(tier, seed):
    n = {'quick': 300, 'thorough': 6000}[tier]
    return [{'n': n, 'fams': F.rotate(F.FAMILIES, seed * 3 + i * 4, 6 if tier == 'quick' else 22),
             'max_ops': 40 if tier == 'quick' else 160} for i in range(16)]


def run_shard(shard, ctx):
    from hypothesis import strategies as st
    cfgs = F.configs(fams=shard['fams'], sizes=F.SMALL_SIZES * 2 + [None])

    @st.composite
    def case(draw):
        c = draw(H.cases(cfgs, max_ops=shard['max_ops'], readonly_weight=0))
        ops = c['ops']
        ncut = draw(st.integers(0, 8))
        cuts = sorted(draw(st.lists(st.integers(0, max(len(ops), 1)), min_size=ncut, max_size=ncut)),
                      reverse=True)
        for pos in cuts:
            ops.insert(pos, [draw(st.sampled_from(['commit', 'commit', 'commit', 'abort']))])
        # cache sweeps in the middle of transactions: unchanged nodes become ghosts, nodes with uncommitted changes
        # must refuse (their changes exist nowhere else)
        for pos in draw(st.lists(st.integers(0, max(len(ops), 1)), max_size=4)):
            ops.insert(pos, ['sweep'])
        if F.is_map(c['cfg']['kind']) and c['cfg']['fam'][1] == 'O' and draw(st.booleans()):
            # mutable values changed in place and stored again (v = t[k]; v.append(x); t[k] = v): the container has
            # to announce the change although it is handed the very object it already holds
            n = draw(st.integers(1, 6))
            for j in range(n):
                pos = draw(st.integers(0, len(ops)))
                ops.insert(pos, draw(st.sampled_from([['setmut', {'@': draw(st.integers(0, 40))}, j],
                                                      ['touch', draw(st.integers(0, 40)), j],
                                                      ['touch', draw(st.integers(0, 40)), j]])))
        ops.append(['commit'])
        return c

    ctx.hyp(case(), run_case, shard['n'], 'txn')


def replay(case, ctx):
    run_case(case, ctx)


def _reader_check(lv, sto, oid, want, what, sig, ctx):
    from BTrees import check as bcheck
    r = Z.Connection(sto)
    rt = r.get(oid)
    try:
        got = list(rt.items()) if lv.is_map else list(rt)
    except Exception as e:
        ctx.mismatch('%s: fresh reader cannot list the container: %s: %s' % (what, type(e).__name__, e),
                     dict(sig, what='reader-raises'), recoverable=False)
    if got != want or not H._types_ok(got, want):
        ctx.mismatch('%s: fresh reader sees %r, the writer saw %r' % (what, got, want),
                     dict(sig, what='reader-contents'), recoverable=False)
    if len(rt) != len(want):
        raise Violation('%s: fresh reader: len() = %d, expected %d' % (what, len(rt), len(want)),
                        dict(sig, what='reader-len'))
    if lv.is_tree:
        try:
            rt._check()
            bcheck.check(rt)
            walker.walk(rt, lv.is_map)
        except (AssertionError, walker.WalkError) as e:
            ctx.mismatch('%s: the reloaded tree is not sound: %s: %s' % (what, type(e).__name__, e),
                         dict(sig, what='reader-unsound'), recoverable=False)
    return rt


def run_case(case, ctx):
    cfg = case['cfg']
    with H.Live(cfg) as lv:
        sto = Z.Storage()
        w = Z.Connection(sto)
        w.add(lv.t)
        w.commit()
        oid = lv.t._p_oid
        committed = {}
        classes = ['kind:' + lv.kind, 'impl:' + lv.impl]
        nontrivial = False
        mutated = False
        struct_change = False
        had_oids = False
        shape_before = None
        f16 = False
        for i, op in enumerate(case['ops']):
            sig = {'impl': lv.impl, 'kind': lv.kind, 'op': op[0], 'f16shape': f16}
            if op[0] == 'commit':
                if lv.is_tree:
                    ws = walker.walk(lv.t, lv.is_map, check=False)
                    f16 = walker.f16_pending(ws)
                    sig['f16shape'] = f16
                    had_oids = any(getattr(lf.obj, '_p_oid', None) is not None for lf in ws.leaves) or had_oids
                # open finding F16e: the stored record of the root embeds its only leaf, and that leaf has meanwhile been
                # given an oid of its own (an emptied, unlinked predecessor that was written in the same commit still
                # pointed to it): from then on changes of the leaf register the leaf, never the root
                sig['embedded_leaf_has_oid'] = False
                if lv.is_tree and lv.t._p_oid in sto.data:
                    try:
                        _k, _data, _tid = sto.load_before(lv.t._p_oid, None)
                        _st = w._unpickle(_data)
                        fb = lv.t._firstbucket
                        sig['embedded_leaf_has_oid'] = bool(_st is not None and len(_st) == 1 and fb is not None
                                                            and fb._p_oid is not None and fb._next is None)
                    except Exception:
                        pass
                try:
                    w.commit()
                except Exception as e:
                    raise Violation('step %d: commit raised %s: %s' % (i, type(e).__name__, e),
                                    dict(sig, what='commit-raises'))
                # nothing may stay changed-but-unwritten in the writer's cache
                left = [o for o_, o in w.cache.items() if o._p_changed]
                if left:
                    raise Violation('step %d: after commit %d object(s) are still marked changed: they '
                                    'changed without registering: %r' % (i, len(left), left[:3]),
                                    dict(sig, what='changed-unregistered'))
                committed = copy.deepcopy(lv.model)
                what = 'step %d commit of %s%s(%s) after %r' % (i, lv.fam, lv.kind, lv.impl, case['ops'][max(0, i - 6):i])
                rt = _reader_check(lv, sto, oid, lv.model_contents(), what, sig, ctx)
                st = rt.__getstate__()
                classes.append('stored:' + ('leaf' if not lv.is_tree else
                                            ('none' if st is None else ('embedded' if len(st) == 1 else 'children'))))
                if mutated and struct_change and had_oids:
                    nontrivial = True
                    classes.append('commit_after_structural_change')
                mutated = struct_change = False
                lv.events.clear()
                continue
            if op[0] == 'abort':
                w.abort()
                lv.model = copy.deepcopy(committed)
                got = lv.contents()
                want = lv.model_contents()
                if got != want:
                    ctx.mismatch('step %d: after abort the writer sees %r, last committed %r (ops since: %r)'
                                 % (i, got, want, case['ops'][max(0, i - 6):i]),
                                 dict(sig, what='abort-contents'), recoverable=False)
                if lv.is_tree:
                    try:
                        lv.t._check()
                        walker.walk(lv.t, lv.is_map)
                    except (AssertionError, walker.WalkError) as e:
                        ctx.mismatch('step %d: after abort the writer\'s tree is not sound: %s' % (i, e),
                                     dict(sig, what='abort-unsound'), recoverable=False)
                if mutated:
                    nontrivial = True
                    classes.append('abort_after_mutation' + ('_structural' if struct_change else ''))
                mutated = struct_change = False
                lv.events.clear()
                lv._leaf_ids = []
                continue
            if op[0] == 'sweep':
                w.minimize()
                for _o, ob in list(w.cache.items()):
                    ob._p_deactivate()
                classes.append('sweep_in_transaction' + ('_with_changes' if mutated else ''))
                got = lv.contents()
                if got != lv.model_contents():
                    ctx.mismatch('step %d: after a cache sweep in mid-transaction the writer sees %r, model %r (ops since: '
                                 '%r)' % (i, got, lv.model_contents(), case['ops'][max(0, i - 6):i]),
                                 dict(sig, what='sweep-contents'), recoverable=False)
                continue
            if op[0] in ('setmut', 'touch'):
                if op[0] == 'setmut':
                    k = lv.K(op[1])
                    v = ['m', op[2]]
                    lv.t[k] = v
                    lv.model[k] = v
                    mutated = True
                else:
                    ks = [k for k in lv.sorted_keys() if isinstance(lv.model[k], list)]
                    if ks:
                        k = ks[op[1] % len(ks)]
                        v = lv.t[k]
                        v.append(op[2])
                        lv.t[k] = v
                        if lv.model[k] is not v:
                            lv.model[k] = lv.model[k] + [op[2]]
                        mutated = True
                        classes.append('mutable_value_changed_in_place')
                continue
            before = copy.deepcopy(lv.model_contents())
            got, want, mode = lv.step(op)
            if not H.same(got, want, mode):
                if ctx.known(dict(H.arg_features(lv, op), impl=lv.impl, kind=lv.kind, op=op[0],
                                  got=H.fmt(got), want=H.fmt(want))):
                    return False, ('abandoned_known_c01',)
                return False, ('abandoned_semantic_mismatch',)
            if lv.contents() != lv.model_contents():
                return False, ('abandoned_semantic_mismatch',)
            if lv.model_contents() != before:
                mutated = True
            n_before = len(lv._leaf_ids)
            h_before = lv._height
            lv.observe_shape()
            if len(lv._leaf_ids) != n_before or lv._height != h_before or op[0] == 'clear':
                struct_change = True
        return nontrivial, classes
