"""C06 - serialized state round-trips, identically in C and Python."""
import copy
import os
import pickle
import struct
import subprocess
import sys

from vlib import families as F
from vlib import histories as H
from vlib import walker
from vlib.runner import Violation

ID = 'C06'
LEVEL = 'exploration'
TECHNIQUE = ('round-trip and differential testing over Hypothesis-generated histories: every container '
             'reached is pickled (protocols 0..5), copied, deep-copied and rebuilt from __getstate__; '
             'each copy must have equal ordered contents, pass _check()/check()/walker and follow the '
             'reference model through a further generated history; the same history run on the C and '
             'the Python class must give byte-identical pickles; Python pickles are loaded by C '
             'in-process and C pickles by a PURE_PYTHON peer process, whose re-dump must again be '
             'byte-identical; '
             'trees whose leaves are instances of a subclass of the leaf class of the family are round-tripped as well')
RULE = ('a case is a configuration + history + tail history.  Non-trivial: the container is multi-leaf '
        'or in embedded one-leaf form, with at least one prior deletion.  Distinct = distinct case JSON.')
ASSUMPTIONS = ['float values are float32-exact (rounding differences belong to C13)',
               'copy.copy is shallow: only the copy is exercised afterwards; originals are re-checked '
               'only after pickle/deepcopy/setstate copies were mutated',
               'the PURE_PYTHON peer is the same build directory imported with PURE_PYTHON=1']

PROTOS = [0, 1, 2, 3, 4, 5]


def shards(tier, seed):
    n = {'quick': 250, 'thorough': 5000}[tier]
    out = [{'n': n, 'fams': F.rotate(F.FAMILIES, seed * 3 + i * 4, 6 if tier == 'quick' else 22),
            'max_ops': 40 if tier == 'quick' else 200} for i in range(16)]
    # trees whose leaves are instances of a SUBCLASS of the family's leaf class (class attribute _bucket_type)
    out[0]['leafsub'] = F.rotate(F.FAMILIES, seed, 4 if tier == 'quick' else 22)
    return out


def _leafsub(fams, ctx):
    for fam in fams:
        for kind in ('BTree', 'TreeSet'):
            for impl in ('c', 'py'):
                for sizes in ((2, 3), (3, 3), (4, 3)):
                    for n in (0, 1, 3, 7, 12):
                        case = {'leafsub': True, 'fam': fam, 'kind': kind, 'impl': impl, 'sizes': list(sizes), 'n': n}
                        if not ctx.run_case(case, _leafsub_case):
                            return


def _leafsub_case(case, ctx):
    fam, kind, impl, sizes, n = case['fam'], case['kind'], case['impl'], tuple(case['sizes']), case['n']
    klass = F.leaf_subclass(F.cls(fam, kind, impl), F.cls(fam, F.leaf_kind(kind), impl), sizes)
    dom = [F.dk(fam, x) for x in F.domain(fam, 'int') if x is not None]
    t = klass()
    for i, k in enumerate(dom[:n]):
        if kind == 'BTree':
            t[k] = F.dv(fam, {'O': 'v', 'F': 0.5, 's': 1}.get(fam[1], 1))
        else:
            t.add(k)
    if walker.f16_pending(walker.walk(t, kind == 'BTree', check=False)):
        return False, ('leafsub:skipped_f16_shape',)
    want = list(t.items()) if kind == 'BTree' else list(t)
    what = '%s with %d keys (leaves are instances of %s)' % (klass.__name__, n, klass._bucket_type.__name__)
    sig = {'impl': impl, 'kind': kind, 'what': 'leafsub'}
    copies = [('copy.copy', lambda: copy.copy(t)), ('copy.deepcopy', lambda: copy.deepcopy(t)),
              ('__setstate__', lambda: _via_setstate(klass, t))]
    copies += [('pickle protocol %d' % p, (lambda p=p: pickle.loads(pickle.dumps(t, p)))) for p in range(6)]
    for how, f in copies:
        try:
            c = f()
            got = list(c.items()) if kind == 'BTree' else list(c)
            c._check()
            walker.walk(c, kind == 'BTree')
        except Exception as e:
            ctx.mismatch('%s: %s failed: %s: %s' % (what, how, type(e).__name__, e), dict(sig, how=how.split()[0]))
            continue
        if got != want or type(c) is not klass:
            ctx.mismatch('%s: %s gives %r (%s)' % (what, how, got, type(c).__name__), dict(sig, how=how.split()[0]))
    return n >= 7, ('leafsub_roundtrips',)


def _via_setstate(klass, t):
    c = klass()
    c.__setstate__(t.__getstate__())
    return c


def run_shard(shard, ctx):
    from hypothesis import strategies as st
    cfgs = F.configs(fams=shard['fams'])

    @st.composite
    def case(draw):
        c = draw(H.cases(cfgs, max_ops=shard['max_ops'], readonly_weight=0))
        cfg = c['cfg']
        tail = draw(st.lists(H.op_strategy(cfg['fam'], cfg['kind'], cfg.get('ktype', 'int')), max_size=10))
        c['tail'] = tail
        # arguments that ARE ints / floats without being exactly int / float (bool, subclasses): every
        # implementation must store the plain number, so states and pickles stay identical
        fam = cfg['fam']
        il = []
        if fam[0] in F.INT_CODES:
            il.append(st.tuples(st.just('k'), st.sampled_from([True, False, 'sub0', 'sub1', 'sub7'])).map(list))
        if F.is_map(cfg['kind']) and fam[1] in F.INT_CODES + 'F':
            il.append(st.tuples(st.just('v'), st.integers(0, 40), st.sampled_from([True, False, 'sub0', 'sub1', 'sub7'])).map(list))
        c['intlike'] = draw(st.lists(st.one_of(*il), max_size=3)) if il else []
        return c

    try:
        if ctx.hyp(case(), run_case, shard['n'], 'rt') and shard.get('leafsub'):
            _leafsub(shard['leafsub'], ctx)
    finally:
        _peer_close()


def replay(case, ctx):
    if case.get('leafsub'):
        return _leafsub_case(case, ctx)
    try:
        run_case(case, ctx)
    finally:
        _peer_close()


# ----------------------------------------------------------------------------- PURE_PYTHON peer

_PEER = [None]
PEER_CODE = r'''
import sys, struct, pickle
inp, out = sys.stdin.buffer, sys.stdout.buffer
import BTrees.OOBTree
assert BTrees.OOBTree.OOBTree is BTrees.OOBTree.OOBTreePy, 'peer is not pure Python'
while True:
    h = inp.read(4)
    if len(h) < 4:
        break
    req = pickle.loads(inp.read(struct.unpack('>I', h)[0]))
    res = {}
    try:
        import importlib
        m = importlib.import_module(req['module'])
        for name, val in req.get('sizes', {}).items():
            for k in ('max_leaf_size', 'max_internal_size'):
                setattr(getattr(m, name), k, val[k])
        t = pickle.loads(req['data'])
        res['cls'] = type(t).__name__
        res['py'] = type(t).__module__ + '.' + type(t).__name__
        res['contents'] = list(t.items()) if req['is_map'] else list(t)
        try:
            if hasattr(t, '_check'):
                t._check()
            res['check'] = None
        except Exception as e:
            res['check'] = '%s: %s' % (type(e).__name__, e)
        res['dumps'] = pickle.dumps(t, req['proto'])
        # a few mutations, then hand the pickle back
        for op in req.get('muts', ()):
            if op[0] == 'set':
                t[op[1]] = op[2]
            elif op[0] == 'add':
                t.add(op[1])
            elif op[0] == 'del':
                if op[1] in t:
                    if req['is_map']:
                        del t[op[1]]
                    else:
                        t.remove(op[1])
        def f16(t):
            tt = type(t)
            def rec(n, root):
                st = n.__getstate__()
                if st is None:
                    return False
                if len(st) == 1:
                    return not root
                kids = st[0][0::2]
                if type(kids[0]) is not tt:
                    return (not root) and len(kids) == 1
                return any(rec(k, False) for k in kids)
            return hasattr(t, '_check') and rec(t, True)
        res['after_f16'] = f16(t)
        res['after'] = pickle.dumps(t, req['proto'])
        res['after_contents'] = list(t.items()) if req['is_map'] else list(t)
    except BaseException as e:
        import traceback
        res['error'] = traceback.format_exc()
    b = pickle.dumps(res, 4)
    out.write(struct.pack('>I', len(b)) + b)
    out.flush()
'''


def _peer():
    if _PEER[0] is None or _PEER[0].poll() is not None:
        env = dict(os.environ)
        env['PURE_PYTHON'] = '1'
        env['PYTHONPATH'] = os.pathsep.join([p for p in sys.path if p])
        for k in ('LD_PRELOAD',):
            env.pop(k, None)
        _PEER[0] = subprocess.Popen([sys.executable, '-c', PEER_CODE], stdin=subprocess.PIPE,
                                    stdout=subprocess.PIPE, env=env)
    return _PEER[0]


def _peer_call(req):
    p = _peer()
    b = pickle.dumps(req, 4)
    p.stdin.write(struct.pack('>I', len(b)) + b)
    p.stdin.flush()
    h = p.stdout.read(4)
    if len(h) < 4:
        _PEER[0] = None
        raise Violation('the PURE_PYTHON peer process died while loading a C pickle', {'what': 'peer-died'})
    return pickle.loads(p.stdout.read(struct.unpack('>I', h)[0]))


def _peer_close():
    p = _PEER[0]
    if p is not None:
        try:
            p.stdin.close()
            p.wait(timeout=5)
        except Exception:
            p.kill()
        _PEER[0] = None


# ----------------------------------------------------------------------------- the case

def _sound(lv, t, what, sig):
    from BTrees import check as bcheck
    if not lv.is_tree:
        return None
    try:
        t._check()
        bcheck.check(t)
        return walker.walk(t, lv.is_map)
    except (AssertionError, walker.WalkError) as e:
        _CTX[0].mismatch('%s: copy is not sound: %s: %s' % (what, type(e).__name__, e),
                         dict(sig, what='unsound'))
        return False


_CTX = [None]


def _f16_shape(w):
    """a non-root interior node whose only child is a leaf (its state embeds that leaf while the
    preceding leaf's successor link refers to it as an object)"""
    return any(n == 1 and depth > 0 for node, depth, n in w.interior)


def _contents(lv, t):
    return list(t.items()) if lv.is_map else list(t)


def _state_form(t, is_tree):
    st = t.__getstate__()
    if not is_tree:
        return 'leaf'
    if st is None:
        return 'empty'
    return 'embedded' if len(st) == 1 else 'children'


def run_case(case, ctx):
    cfg = case['cfg']
    removed = 0
    _CTX[0] = ctx
    with H.Live(cfg, impl='c') as lc, H.Live(cfg, impl='py') as lp:
        for op in case['ops']:
            before = len(lc.model)
            rc = lc.step(op)
            rp = lp.step(op)
            if len(lc.model) < before:
                removed += 1
            if not H.same(*rc) or not H.same(*rp):
                # semantic disagreement (C01's business): stop using this history
                return False, ('abandoned_semantic_mismatch',)
        if _contents(lc, lc.t) != _contents(lp, lp.t) or _contents(lc, lc.t) != lc.model_contents():
            return False, ('abandoned_semantic_mismatch',)
        nintlike = 0
        for il in case.get('intlike', ()):
            for lv in (lc, lp):
                arg = il[-1]
                if isinstance(arg, str):
                    num = int(arg[3:])
                    arg = F.SubFloat(num) if (il[0] == 'v' and lv.fam[1] == 'F') else F.SubInt(num)
                plain = float(arg) if (il[0] == 'v' and lv.fam[1] == 'F') else int(arg)
                if il[0] == 'k':
                    if lv.is_map:
                        v = lv.V(F.default_token(lv.fam) if lv.fam[1] not in 's' else 0) if lv.fam[1] != 'O' else None
                        lv.t[arg] = v
                        lv.model[plain] = v
                    else:
                        lv.t.add(arg)
                        lv.model[plain] = None
                else:
                    ks = lv.sorted_keys()
                    k = ks[il[1] % len(ks)] if ks else lv.K(F.default_token(lv.fam, lv.ktype))
                    lv.t[k] = arg
                    lv.model[k] = plain
            nintlike += 1
        form = _state_form(lc.t, lc.is_tree)
        classes = ['form:' + form, 'kind:' + lc.kind, 'mode:' + lc.mode] + (['intlike_args'] if nintlike else [])
        want = lc.model_contents()
        sig0 = {'kind': lc.kind, 'form': form, 'mode': lc.mode}
        nleaves = 1
        f16 = False
        if lc.is_tree:
            w0 = walker.walk(lc.t, lc.is_map, check=False)
            nleaves = len(w0.leaves)
            f16 = _f16_shape(w0) and any(h >= 1 for h in [w0.height])
        multi = nleaves >= 2
        sig0['multi'] = multi
        f16py = f16
        if lp.is_tree:
            f16py = _f16_shape(walker.walk(lp.t, lp.is_map, check=False))
        sig0['iand'] = any(op[0] == 'iand' for op in case['ops'])
        if f16:
            classes.append('f16shape')
        # ---- byte-identical pickles, C vs Python
        for proto in (PROTOS if lc.mode == 'class' else ()):   # subclasses pickle under their own names
            bc = pickle.dumps(lc.t, proto)
            bp = pickle.dumps(lp.t, proto)
            if bc != bp:
                same_skel = walker.skeleton(lc.t, lc.is_map, lc.is_tree) == \
                    walker.skeleton(lp.t, lp.is_map, lp.is_tree)
                ctx.mismatch('pickle protocol %d differs between C and Python for %s%s after %r '
                             '(state skeletons equal: %s):\n C  %r\n Py %r'
                             % (proto, lc.fam, lc.kind, case['ops'][-6:], same_skel, bc, bp),
                             dict(sig0, what='bytes-differ', fam=lc.fam, same_skeleton=same_skel))
                break
        # ---- copies
        jobs = []
        for impl, lv in (('c', lc), ('py', lp)):
            for proto in PROTOS:
                jobs.append((impl, lv, 'pickle%d' % proto))
            jobs += [(impl, lv, 'copy'), (impl, lv, 'deepcopy'), (impl, lv, 'setstate')]
        for impl, lv, how in jobs:
            sig = dict(sig0, impl=impl, how='pickle' if how.startswith('pickle') else how,
                       f16shape=f16 if impl == 'c' else f16py)
            what = '%s of %s%s(%s) [%s, %d leaves] after %r' % (how, lv.fam, lv.kind, impl, form, nleaves,
                                                                case['ops'][-6:])
            if sig['f16shape'] and how not in ('pickle0', 'copy', 'setstate'):
                # open finding F16 (probed once per case with pickle0): the other serializers
                # would only repeat it
                ctx.exclude('pickle/deepcopy of a tree with a single-leaf non-root interior node (F16)')
                continue
            if impl == 'py' and lv.mode == 'subclass' and how != 'copy' and how != 'setstate':
                # a subclass of a *Py class pickles under its own name while its nodes pickle
                # under the C names: a test-only configuration, not generated
                ctx.exclude('pickle/deepcopy of an instance of a subclass of a ...Py class')
                continue
            try:
                if how.startswith('pickle'):
                    cp = pickle.loads(pickle.dumps(lv.t, int(how[6:])))
                elif how == 'copy':
                    cp = copy.copy(lv.t)
                elif how == 'deepcopy':
                    cp = copy.deepcopy(lv.t)
                else:
                    cp = lv.klass()
                    st = lv.t.__getstate__()
                    if st is not None:
                        cp.__setstate__(st)
            except Exception as e:
                ctx.mismatch('%s raised %s: %s' % (what, type(e).__name__, e),
                             dict(sig, what='raised:' + type(e).__name__))
                continue
            # pickles name the C classes: a Python original comes back as a C object
            got = _contents(lv, cp)
            if got != want or not H._types_ok(got, want):
                ctx.mismatch('%s: contents %r, expected %r' % (what, got, want), dict(sig, what='contents'))
                continue
            if _sound(lv, cp, what, sig) is False:
                continue
            classes.append('copy:%s:%s' % (impl, 'pickle' if how.startswith('pickle') else how))
            # follow-up history on the copy
            if how in ('pickle2', 'pickle5', 'deepcopy', 'copy', 'setstate'):
                cimpl = 'c' if (how.startswith('pickle') or how in ('copy', 'deepcopy')) and impl == 'py' \
                    and type(cp).__name__.endswith('Py') is False else impl
                with H.Live(cfg, impl=cimpl) as l2:
                    l2.t = cp
                    l2.model = dict(lv.model)
                    l2.loaded = True
                    # copy.copy() and __setstate__(__getstate__()) share the child nodes with the
                    # original (shallow by definition): only reads are run on those copies
                    tail = case['tail'] if how not in ('copy', 'setstate') else \
                        [op for op in case['tail'] if op[0] not in H.MUTATORS]
                    for j, op in enumerate(tail):
                        r = l2.step(op)
                        if not H.same(*r):
                            if ctx.known(dict(H.arg_features(l2, op), impl=cimpl, kind=l2.kind, op=op[0],
                                              got=H.fmt(r[0]), want=H.fmt(r[1]), c01=True)):
                                break
                            ctx.mismatch('%s: follow-up step %d %r on the copy: got %s, model %s'
                                         % (what, j, op, H.fmt(r[0]), H.fmt(r[1])),
                                         dict(sig, what='followup', op=op[0]))
                            break
                        if _contents(l2, l2.t) != l2.model_contents():
                            if ctx.known(dict(H.arg_features(l2, op), impl=cimpl, kind=l2.kind, op=op[0],
                                              what='contents', c01=True)):
                                break
                            ctx.mismatch('%s: after follow-up step %d %r the copy holds %r, model %r'
                                         % (what, j, op, _contents(l2, l2.t), l2.model_contents()),
                                         dict(sig, what='followup-contents', op=op[0]))
                            break
                        if _sound(l2, l2.t, what + ' + follow-up step %d %r' % (j, op), sig) is False:
                            break
                # independence: the original is untouched by mutations of a deep copy
                if True:
                    if _contents(lv, lv.t) != want:
                        ctx.mismatch('%s: mutating the copy changed the original' % what,
                                     dict(sig, what='not-independent'))
                    _sound(lv, lv.t, what + ' (original, after the copy was mutated)', sig)
        # ---- C pickle -> PURE_PYTHON peer -> back
        if lc.mode == 'class' and not f16:
            proto = PROTOS[len(case['ops']) % len(PROTOS)]
            data = pickle.dumps(lc.t, proto)
            sizes = {}
            if lc.is_tree and lc.sizes:
                sizes[lc.fam + lc.kind] = {'max_leaf_size': lc.sizes[0], 'max_internal_size': lc.sizes[1]}
            muts = []
            for op in case['tail']:
                if op[0] in ('set', 'add') and not isinstance(op[1], dict):
                    muts.append([op[0], F.dk(lc.fam, op[1])] + ([F.dv(lc.fam, op[2])] if op[0] == 'set' else []))
                elif op[0] in ('del', 'remove', 'discard') and not isinstance(op[1], dict):
                    muts.append(['del', F.dk(lc.fam, op[1])])
            res = _peer_call({'module': 'BTrees.%sBTree' % lc.fam, 'data': data, 'proto': proto,
                              'is_map': lc.is_map, 'sizes': sizes, 'muts': muts})
            sig = dict(sig0, how='peer', f16shape=f16)
            what = 'C pickle (protocol %d) of %s%s [%s] loaded by the pure-Python build' % (proto, lc.fam, lc.kind, form)
            if 'error' in res:
                ctx.mismatch('%s failed:\n%s' % (what, res['error']), dict(sig, what='peer-error'))
            else:
                if res['contents'] != want:
                    ctx.mismatch('%s: contents %r, expected %r' % (what, res['contents'], want),
                                 dict(sig, what='peer-contents'))
                if res['check'] is not None:
                    ctx.mismatch('%s: _check() fails there: %s' % (what, res['check']), dict(sig, what='unsound'))
                if res['dumps'] != data:
                    ctx.mismatch('%s: re-dumped bytes differ:\n C  %r\n Py %r' % (what, data, res['dumps']),
                                 dict(sig, what='peer-bytes-differ', fam=lc.fam))
                # and back: the peer's pickle after its own mutations loads in C
                back = pickle.loads(res['after'])
                sig = dict(sig, f16shape=bool(res.get('after_f16')))
                if _contents(lc, back) != res['after_contents']:
                    ctx.mismatch('%s, mutated there (%r) and loaded back by C: contents %r, peer had %r'
                                 % (what, muts, _contents(lc, back), res['after_contents']),
                                 dict(sig, what='peer-back-contents'))
                _sound(lc, back, what + ' and back', sig)
                classes.append('peer_roundtrip')
        # ---- stored trees: once the nodes have oids (committed to a database) the two implementations must
        #      still choose the same state form for the same history (embedded leaf vs. child reference)
        if lc.is_tree:
            from vlib import minizodb as Z
            conns = []
            for lv in (lc, lp):
                conn = Z.Connection(Z.Storage())
                conn.add(lv.t)
                conn.commit()
                conns.append(conn)
            ok = True
            for op in case['tail']:
                rc, rp = lc.step(op), lp.step(op)
                if not H.same(*rc) or not H.same(*rp):
                    ok = False          # C01's business
                    break
            if ok and _contents(lc, lc.t) == _contents(lp, lp.t):
                skc = walker.skeleton(lc.t, lc.is_map, True)
                skp = walker.skeleton(lp.t, lp.is_map, True)
                if skc != skp:
                    ctx.mismatch('after commit (all nodes have oids) and the tail history %r the serialized state of '
                                 '%s%s differs between C and Python:\n C  %r\n Py %r'
                                 % (case['tail'], lc.fam, lc.kind, skc, skp),
                                 dict(sig0, what='stored-state-differs', iand=any(o[0] == 'iand' for o in case['tail'])))
                classes.append('stored_state_compared')
                # and what is committed then is what a fresh reader sees (both implementations)
                for lv, conn in zip((lc, lp), conns):
                    wk = walker.walk(lv.t, lv.is_map, check=False)
                    if walker.f16_pending(wk):
                        ctx.exclude('commit of a tree with a single-leaf non-root interior node (F16)')
                        continue
                    conn.commit()
                    rd = Z.Connection(conn.storage)
                    cp = rd.get(lv.t._p_oid)
                    got = _contents(lv, cp)
                    if got != lv.model_contents() or not H._types_ok(got, lv.model_contents()):
                        ctx.mismatch('%s%s(%s) committed, changed by %r and committed again: a fresh reader sees %r, '
                                     'expected %r' % (lv.fam, lv.kind, lv.impl, case['tail'], got, lv.model_contents()),
                                     dict(sig0, what='stored-reader-contents', impl=lv.impl))
        nontrivial = (multi or form == 'embedded') and removed >= 1
        return nontrivial, classes
