"""C05 - evicting nodes from the object cache never changes behaviour."""
from vlib import families as F
from vlib import histories as H
from vlib import minizodb as Z
from vlib import probes as P
from vlib import walker
from vlib.runner import Violation

ID = 'C05'
LEVEL = 'exploration'
TECHNIQUE = ('model-based stateful testing with generated eviction schedules: a committed container in a '
             'mini-ZODB connection (persistent.PickleCache) runs a Hypothesis-generated history of reads, '
             'writes and failing calls interleaved with commits and cache sweeps (minimize(), '
             '_p_deactivate() of generated node subsets, and - for object keys - a sweep fired from inside '
             'the n-th key comparison of an operation, n enumerated for a set of operations); every result '
             'is compared with a reference model and after every call no cached object may be left sticky; '
             'the C extension runs the in-comparison sweeps under ASan/UBSan; '
             'a third of the cases make every call through the class (no activation of a ghost by attribute look-up); set algebra / multiunion / update / in-place operators with a second stored operand, live iterators stepped across sweeps, the truth value / length / ends of lazy sequences on a grid of all bound pairs of small stored trees, failing calls (byValue, update, union with unusable data)')
RULE = ('a case is (configuration, base contents, history with sweeps).  Non-trivial: some operation '
        'started with at least one ghost among the container\'s nodes, or a sweep ran inside a key '
        'comparison.  Distinct = distinct case JSON (enumerated in-comparison points are distinct by n).')
ASSUMPTIONS = ['vlib/minizodb.py + persistent.PickleCache model the ZODB connection cache',
               'HookKey (vlib/probes.py) is a totally ordered object key whose comparisons call the harness',
               'sanitizer build (gcc ASan+UBSan, PYTHONMALLOC=malloc) turns reads of evicted/freed nodes into aborts']

OFAMS = ['OO', 'OI', 'OL', 'OU', 'OQ']
F32_REMOVING = ('del', 'pop', 'popd', 'popitem', 'remove', 'discard', 'clear', 'delrun')
F32_ADDING = ('set', 'add', 'insert', 'setdefault', 'upd', 'update')


def shards(tier, seed):
    n = {'quick': 160, 'thorough': 4000}[tier]
    out = []
    for i in range(12):
        out.append({'mode': 'between', 'n': n, 'fams': F.rotate(F.FAMILIES, seed * 3 + i * 4, 6 if tier == 'quick' else 22)})
    for i in range(2):
        out.append({'mode': 'incmp', 'impl': 'py', 'n': n // 2, 'fams': OFAMS})
    for i in range(4):
        out.append({'mode': 'incmp', 'impl': 'c', 'n': n // 2, 'fams': OFAMS, 'variant': 'san'})
    for i in range(4 if tier == 'quick' else 16):
        out.append({'mode': 'enum', 'impl': 'c', 'variant': 'san', 'i': i, 'trees': 1 if tier == 'quick' else 12})
    for i in range(2 if tier == 'quick' else 8):
        out.append({'mode': 'enum', 'impl': 'py', 'i': i, 'trees': 1 if tier == 'quick' else 12})
    # every (min, max) pair x exclusion flags on small stored trees: the lazy sequence is created on ghosts, asked for
    # its truth value, its length, its first and last element - no node may stay pinned after any of these
    for impl in ('c', 'py'):
        out.append({'mode': 'viewgrid', 'impl': impl, 'fams': F.rotate(F.FAMILIES, seed, 2 if tier == 'quick' else 22)})
    return out


# ----------------------------------------------------------------------------- strategies

def _cases(shard):
    from hypothesis import strategies as st
    hook = shard['mode'] == 'incmp'

    @st.composite
    def case(draw):
        fam = draw(st.sampled_from(shard['fams']))
        kind = draw(st.sampled_from(['BTree', 'BTree', 'TreeSet', 'TreeSet', 'Bucket', 'Set']))
        impl = shard.get('impl') or draw(st.sampled_from(['c', 'py']))
        sizes = draw(st.sampled_from([[2, 2], [3, 2], [2, 3], [3, 3], [4, 3], None]))
        cfg = {'fam': fam, 'kind': kind, 'impl': impl, 'ktype': 'int'}
        if kind in F.TREE_KINDS:
            cfg['sizes'] = sizes
        if hook:
            cfg['hook'] = True
        if draw(st.integers(0, 2)) == 0:
            cfg['unbound'] = True       # every call goes through the class: getattr does not activate ghosts first
        dom = [x for x in F.domain(fam, 'int') if x is not None or not hook]
        if hook:
            dom = [x for x in dom if x is not None and abs(x) < 1000]
        n = len(dom)
        is_map = F.is_map(kind)
        V = F.value_tokens(fam) if is_map else st.none()
        K = st.one_of(st.sampled_from(dom), st.integers(0, 40).map(lambda i: {'@': i}))
        start = draw(st.integers(0, n - 1))
        base = [dom[(start + j) % n] for j in range(draw(st.integers(0, 16)))]
        op = lambda *a: st.tuples(*[st.just(x) if isinstance(x, str) else x for x in a]).map(list)
        B = st.one_of(st.none(), st.sampled_from(dom), st.sampled_from(dom),
                      st.builds(lambda i, l: {'edge': i, 'last': l}, st.integers(0, 12), st.booleans()))
        if is_map:
            rw = [op('set', K, V), op('set', K, V), op('del', K), op('setdefault', K, V), op('pop', K),
                  op('popd', K, V), op('popitem'), op('get', K), op('getitem', K), op('in', K),
                  op('has_key', K), op('len'), op('list'), op('items'), op('values')]
            if kind == 'BTree':
                rw.append(op('insert', K, V))
        else:
            rw = [op('add', K), op('add', K), op('remove', K), op('discard', K), op('pop'), op('in', K),
                  op('has_key', K), op('len'), op('list'), op('keys'), op('isdisjoint_self')]
        rw += [op('range', st.sampled_from(['keys'] + (['values', 'items'] if is_map else [])), B, B,
                  st.booleans(), st.booleans()),
               op('view', st.sampled_from(['keys'] + (['values', 'items'] if is_map else [])), B, B,
                  st.booleans(), st.booleans(), st.lists(st.integers(-12, 12), min_size=1, max_size=5)),
               op('view', st.sampled_from(['keys'] + (['values', 'items'] if is_map else [])), st.none(), st.none(),
                  st.booleans(), st.booleans(), st.lists(st.sampled_from([-1, -2, -3, -5, 0, 4]), min_size=2, max_size=4)),
               # a range from the LAST key of one leaf to the FIRST key of a later one: the offset of the low end in its
               # leaf is larger than that of the high end in its leaf
               op('view', st.sampled_from(['keys'] + (['values', 'items'] if is_map else [])),
                  st.builds(lambda i: {'edge': i, 'last': True}, st.integers(0, 6)),
                  st.builds(lambda i: {'edge': i, 'last': False}, st.integers(0, 6)),
                  st.booleans(), st.booleans(), st.lists(st.integers(-4, 4), min_size=1, max_size=3)),
               op('minKey', B), op('maxKey', B), op('clear')]
        OK_ = st.lists(st.sampled_from(dom), max_size=8)
        okinds = st.sampled_from(['Set', 'TreeSet', 'Bucket', 'BTree'])
        fns = ['union', 'intersection', 'difference', 'or', 'and', 'sub']
        if is_map and fam[1] in 'IULQF' or (not is_map and fam[1] in 'IULQF'):
            fns += ['weightedUnion', 'weightedIntersection']
        if not is_map:
            fns += ['isdisjoint']
        # set algebra / multiunion / update with a second STORED container of the same connection as operand; both
        # may be ghosts when the call starts
        rw += [op('alg', st.sampled_from(fns), OK_, okinds, st.booleans(), st.booleans()),
               op('alg', st.sampled_from(fns), OK_, okinds, st.booleans(), st.just(True))]
        if fam[0] in F.BOUNDS:
            rw += [op('mu', OK_, st.sampled_from(['Set', 'Bucket', 'Set', 'TreeSet', 'BTree']),
                      st.lists(st.sampled_from(dom), max_size=2), st.booleans())] * 2
        rw += [op('upd', st.sampled_from(['update'] + ([] if is_map else ['ior', 'iand', 'isub', 'ixor'])), OK_,
                  st.sampled_from(['Bucket', 'BTree'] if is_map else ['Set', 'TreeSet']), st.booleans())]
        # a live iterator stepped with cache sweeps between the steps
        rw += [op('cursor', st.sampled_from(['__iter__', 'keys'] + (['values', 'items', 'iterkeys', 'itervalues',
                                                                      'iteritems'] if is_map else [])),
                  st.integers(1, 12), st.booleans())]
        if kind in F.TREE_KINDS:
            # delete every key of a run of consecutive leaves (with small nodes this empties whole interior nodes,
            # which their parents then drop), sweep, look again
            rw += [op('delrun', st.integers(0, 8), st.integers(2, 6))] * 2
            rw += [op('leaf', st.integers(0, 6), st.sampled_from(['keys', 'minKey_bad', 'maxKey_bad', 'len', 'has_key', 'maxKey']))]
        ctl = [op('commit'), op('commit'), op('minimize'), op('minimize'),
               op('deact', st.lists(st.integers(0, 30), max_size=5)),
               op('bad', st.sampled_from(['setkey', 'setval', 'lookup', 'bound', 'minKey', 'missing', 'leafbound',
                                           'byValue', 'byValue_ok', 'update_badpair', 'alg_badoperand']))]
        one = st.one_of(*(rw * 2 + ctl))
        ops = draw(st.lists(one, max_size=30))
        if hook:
            ops = [o + [{'sweep_at': draw(st.integers(0, 12))}] if o[0] not in ('commit', 'minimize', 'deact', 'bad')
                   else o for o in ops]
        return {'cfg': cfg, 'base': base, 'basev': draw(V), 'ops': ops}

    return case()


def run_shard(shard, ctx):
    if shard['mode'] == 'enum':
        return _enum(shard, ctx)
    if shard['mode'] == 'viewgrid':
        return _viewgrid(shard, ctx)
    ctx.hyp(_cases(shard), run_case, shard['n'], shard['mode'])


def replay(case, ctx):
    run_case(case, ctx)


# ----------------------------------------------------------------------------- execution

class CLive(H.Live):
    """Live container living in a mini-ZODB connection."""

    def setup(self, base, basev, hook):
        self.sto = Z.Storage()
        self.conn = Z.Connection(self.sto)
        if hook:
            self.keywrap = P.HookKey
            self.arm = P.arm
        self.conn.add(self.t)
        bv = F.dv(self.fam, basev) if self.is_map else None
        for tok in base:
            k = self._kw(F.dk(self.fam, tok))
            if self.is_map:
                self.t[k] = bv
            else:
                self.t.add(k)
            self.model[k] = bv
        self.conn.commit()
        self.started_with_ghost = False
        self.incmp_sweeps = 0

    def nodes(self):
        return [o for _, o in sorted(self.conn.cache.items())]

    def f16_pending(self):
        """open finding F16 (a C06 / C04 finding): a commit now would store a leaf twice"""
        if not self.is_tree:
            return False
        ghosts = [o for o in self.nodes() if o._p_state == -1]
        w = walker.walk(self.t, self.is_map, check=False)
        r = walker.f16_pending(w)
        del w
        for o in ghosts:            # looking at the structure must not change what is evicted
            if o._p_state == 0:
                o._p_deactivate()
        return r

    def leaf_count(self):
        if not self.is_tree:
            return 1
        ghosts = [o for o in self.nodes() if o._p_state == -1]
        n = len(walker.walk(self.t, self.is_map, check=False).leaves)
        for o in ghosts:
            if o._p_state == 0:
                o._p_deactivate()
        return n

    def stored_other(self, kind, toks):
        """a second container, stored in the same connection (the commit also flushes pending changes of the
        container under test, which does not change its contents)"""
        o = F.cls(self.fam, kind, self.impl)()
        keys = []
        for tok in toks:
            k = self._kw(F.dk(self.fam, tok))
            if k is None:
                continue
            if F.is_map(kind):
                o[k] = self.V(_some_vtok(self.fam))
            else:
                o.add(k)
            if not any(k == x for x in keys):
                keys.append(k)
        if not self.f16_pending():      # else: the operand stays a plain in-memory container
            self.conn.add(o)
            self.conn.commit()
        return o, keys

    def sweep(self):
        import gc
        self.conn.minimize()
        gc.collect()


_BAD_KEYS = {'int': ['x', 2 ** 70, 1.5, None, (1,)], 'O': [object()], 'f': [b'abc', 'ab', 5, None]}


def _bad_key(fam):
    k = fam[0]
    return _BAD_KEYS['int' if k in F.BOUNDS else ('f' if k == 'f' else 'O')][0]


def _bad_val(fam):
    v = fam[1]
    if v in F.BOUNDS or v == 'F':
        return 'x'
    if v == 's':
        return b'abc'
    return None


def _edge(lv, sk, tok):
    """a bound: None, a key token, or {'edge': i, 'last': bool} = first / last key of the i-th leaf"""
    if tok is None:
        return None
    if isinstance(tok, dict):
        if not sk:
            return lv._kw(F.dk(lv.fam, F.default_token(lv.fam, lv.ktype)))
        if lv.is_tree:
            ghosts = [o for o in lv.nodes() if o._p_state == -1]
            lvs = [lf.keys for lf in walker.walk(lv.t, lv.is_map, check=False).leaves if lf.keys]
            for o in ghosts:            # looking at the structure must not change what is evicted
                if o._p_state == 0:
                    o._p_deactivate()
        else:
            lvs = [sk]
        lf = lvs[tok['edge'] % len(lvs)]
        k = lf[-1] if tok.get('last') else lf[0]
        # hand the container the model's own key object (HookKey in hook mode)
        for m in sk:
            if m is k or m == k:
                return m
        return k
    return lv._kw(F.dk(lv.fam, tok))


def _special(lv, op, ctx, i):
    """C05-specific operations; returns (got, want, mode) or None"""
    t, m, fam = lv.callee(), lv.model, lv.fam
    name = op[0]
    sk = lv.sorted_keys()
    if name in ('range', 'view'):
        _, meth, mn, mx, exmin, exmax = op[:6]
        kmn = _edge(lv, sk, mn)
        kmx = _edge(lv, sk, mx)

        def ok(k):
            s = F.sortkey(k)
            if kmn is None:
                lo = not (exmin and sk and k is sk[0])
            else:
                lo = s > F.sortkey(kmn) or (s == F.sortkey(kmn) and not exmin)
            if kmx is None:
                hi = not (exmax and sk and k is sk[-1])
            else:
                hi = s < F.sortkey(kmx) or (s == F.sortkey(kmx) and not exmax)
            return lo and hi
        sel = [k for k in sk if ok(k)]
        want = sel if meth == 'keys' else ([m[k] for k in sel] if meth == 'values' else [(k, m[k]) for k in sel])
        call = lambda: list(getattr(t, meth)(kmn, kmx, exmin, exmax))
        if name == 'view':
            # the lazy sequence is created and indexed (backwards and forwards) WITHOUT being iterated; no node
            # may stay pinned after any of these calls, while the sequence is still alive
            idxs = op[6]
            wantv = [bool(want), len(want)] + [(want[j] if -len(want) <= j < len(want) else 'IndexError') for j in idxs]
            lv.view_sticky = None

            def call():
                v = getattr(t, meth)(kmn, kmx, exmin, exmax)
                out = []
                steps = [('bool', None), ('len', None)] + [('idx', j) for j in idxs]
                if lv.conn.sticky():
                    lv.view_sticky = 'creating the sequence'
                for what, j in steps:
                    try:
                        out.append(bool(v) if what == 'bool' else (len(v) if what == 'len' else v[j]))
                    except IndexError:
                        out.append('IndexError')
                    if lv.view_sticky is None and lv.conn.sticky():
                        lv.view_sticky = what + '()' if what != 'idx' else 'indexing it with %d' % j
                return out
            return call, ('ok', wantv), 'eq'
        return call, ('ok', want), 'eq'
    if name in ('minKey', 'maxKey'):
        b = op[1]
        kb = _edge(lv, sk, b)
        if name == 'minKey':
            c = [k for k in sk if kb is None or F.sortkey(k) >= F.sortkey(kb)]
            want = ('ok', c[0]) if c else ('exc', ValueError)
        else:
            c = [k for k in sk if kb is None or F.sortkey(k) <= F.sortkey(kb)]
            want = ('ok', c[-1]) if c else ('exc', ValueError)
        call = (lambda: getattr(t, name)()) if b is None else (lambda: getattr(t, name)(kb))
        return call, want, 'eq'
    if name == 'delrun':
        if not lv.is_tree or not sk:
            return (lambda: None), ('ok', None), 'eq'
        ghosts = [o for o in lv.nodes() if o._p_state == -1]
        lvs = [lf.keys for lf in walker.walk(lv.t, lv.is_map, check=False).leaves if lf.keys]
        for o in ghosts:
            if o._p_state == 0:
                o._p_deactivate()
        i = op[1] % len(lvs)
        doomed = [k for lf in lvs[i:i + op[2]] for k in lf]

        def call():
            for k in doomed:
                if lv.is_map:
                    del t[k]
                else:
                    t.remove(k)
                m.pop(k, None)
            lv.conn.minimize()
            return [k for k in (t.keys())]
        want = [k for k in sk if not any(k is d or k == d for d in doomed)]
        return call, ('ok', want), 'eq'
    if name == 'isdisjoint_self':
        return (lambda: t.isdisjoint(lv.t)), ('ok', not m), 'truth'
    if name == 'alg':
        _, fn, toks, okind, swap, sweep = op
        if fn == 'isdisjoint':
            swap = False            # only sets have the method; the other operand may be of any kind
        if fn.startswith('weighted') and lv.is_map and any(not (-1000 <= v <= 1000) for v in m.values()):
            # value arithmetic that leaves the type's range is not specified (C12 excludes it too)
            fn = {'weightedUnion': 'union', 'weightedIntersection': 'intersection'}[fn]
        other, okeys = lv.stored_other(okind, toks)
        mine = list(sk)
        a, b = (other, lv.t) if swap else (lv.t, other)
        ka, kb = (okeys, mine) if swap else (mine, okeys)

        def has(k, ks):
            return any(k == x for x in ks)
        if fn in ('union', 'or', 'weightedUnion'):
            want = sorted(ka + [k for k in kb if not has(k, ka)], key=F.sortkey)
        elif fn in ('intersection', 'and', 'weightedIntersection'):
            want = sorted([k for k in ka if has(k, kb)], key=F.sortkey)
        elif fn in ('difference', 'sub'):
            want = sorted([k for k in ka if not has(k, kb)], key=F.sortkey)
        else:
            want = not any(has(k, kb) for k in ka)
        if fn in ('or', 'and', 'sub'):
            import operator
            f = {'or': operator.or_, 'and': operator.and_, 'sub': operator.sub}[fn]
        elif fn == 'isdisjoint':
            f = lambda x, y: t.isdisjoint(y)
        else:
            f = F.fn(fam, fn, lv.impl)
            if f is None:
                return (lambda: None), ('ok', None), 'eq'

        def call():
            if sweep:
                lv.conn.minimize()
            r = f(a, b)
            if fn == 'isdisjoint':
                return bool(r)
            if fn.startswith('weighted'):
                r = r[1]
            return list(r.keys())
        return call, ('ok', want), 'eq'
    if name == 'mu':
        _, toks, okind, extra, sweep = op
        mu = F.fn(fam, 'multiunion', lv.impl)
        other, okeys = lv.stored_other(okind, toks)
        ex = [F.dk(fam, x) for x in extra]
        want = sorted(set(sk) | set(okeys) | set(ex))

        def call():
            if sweep:
                lv.conn.minimize()
            return list(mu([other] + ex[:1] + [lv.t] + ex[1:]))
        return call, ('ok', want), 'eq'
    if name == 'upd':
        _, how, toks, okind, sweep = op
        other, okeys = lv.stored_other(okind, toks)
        ov = lv.V(_some_vtok(fam)) if lv.is_map else None

        def call():
            if sweep:
                lv.conn.minimize()
            if how == 'update':
                t.update(other)
                for k in okeys:
                    m[k] = ov
            elif how == 'ior':
                t.__ior__(other)
                for k in okeys:
                    m[k] = None
            elif how == 'iand':
                t.__iand__(other)
                for k in list(m):
                    if not any(k == x for x in okeys):
                        del m[k]
            elif how == 'isub':
                t.__isub__(other)
                for k in okeys:
                    m.pop(k, None)
            else:
                t.__ixor__(other)
                for k in okeys:
                    if k in m:
                        del m[k]
                    else:
                        m[k] = None
            return list(other.keys()) == sorted(okeys, key=F.sortkey)       # the operand is only read
        return call, ('ok', True), 'eq'
    if name == 'cursor':
        _, meth, nsteps, sweep = op
        if meth in ('__iter__', 'keys', 'iterkeys'):
            seq = list(sk)
        elif meth in ('values', 'itervalues'):
            seq = [m[k] for k in sk]
        else:
            seq = [(k, m[k]) for k in sk]
        want = seq[:nsteps] + (['stop'] if nsteps > len(seq) else [])
        lv.view_sticky = None

        def call():
            it = iter(t) if meth == '__iter__' else iter(getattr(t, meth)())
            out = []
            for j in range(nsteps):
                if sweep:
                    lv.conn.minimize()
                try:
                    out.append(next(it))
                except StopIteration:
                    out.append('stop')
                    break
                if lv.view_sticky is None and lv.conn.sticky():
                    lv.view_sticky = 'step %d of a live %s iterator' % (j, meth)
            return out
        return call, ('ok', want), 'eq'
    return None


def _no_sticky(lv, what, sig, ctx):
    st = lv.conn.sticky()
    if st:
        objs = [type(lv.conn.cache.get(o)).__name__ for o in st]
        ctx.mismatch('%s: %d node(s) left pinned against eviction (sticky): %r' % (what, len(st), objs),
                     dict(sig, what='sticky'))
        # un-pin so that the rest of the history is meaningful
        for o in st:
            ob = lv.conn.cache.get(o)
            try:
                ob._p_sticky = False
            except Exception:
                pass


def run_case(case, ctx):
    cfg = case['cfg']
    hook = bool(cfg.get('hook'))
    P.Hook.reset()
    P.arm(False)
    with CLive(cfg) as lv:
        lv.setup(case['base'], case.get('basev'), hook)
        classes = ['kind:' + lv.kind, 'impl:' + lv.impl, 'mode:' + ('incmp' if hook else 'between')]
        if cfg.get('unbound'):
            classes.append('calls:through_the_class')
        nontrivial = False
        for i, op in enumerate(case['ops']):
            name = op[0]
            sig = {'impl': lv.impl, 'kind': lv.kind, 'op': name, 'hook': hook,
                   'prior_insweep': bool(getattr(lv, 'incmp_sweeps', 0))}
            desc = 'step %d %r on %s%s(%s, sizes %s)' % (i, op, lv.fam, lv.kind, lv.impl, cfg.get('sizes'))
            if name == 'commit':
                if lv.f16_pending():
                    ctx.exclude('commit skipped: shape of open finding F16')
                else:
                    lv.conn.commit()
                continue
            if name == 'minimize':
                lv.conn.minimize()
                classes.append('sweep:minimize')
                continue
            if name == 'deact':
                ns = lv.nodes()
                for j in op[1]:
                    if ns:
                        ns[j % len(ns)]._p_deactivate()
                classes.append('sweep:deactivate')
                continue
            if name == 'bad':
                _bad(lv, op[1], desc, sig, ctx, classes)
                continue
            ghosts = sum(1 for o in lv.nodes() if o._p_state == -1)
            if ghosts:
                nontrivial = True
                classes.append('started_with_ghost')
            sweep_at = 0
            if hook and isinstance(op[-1], dict):
                sweep_at = op[-1].get('sweep_at', 0)
                op = op[:-1]
            P.Hook.reset(at=sweep_at, action=lv.sweep if sweep_at else None)
            sig['insweep'] = False
            if hook and lv.impl == 'py':
                sig['multileaf'] = lv.leaf_count() > 1
            if name == 'leaf':
                _leaf(lv, op, desc, sig, ctx, classes)
                continue
            sp = _special(lv, op, ctx, i)
            if sp is not None:
                call, want, mode = sp
                try:
                    P.arm(hook)
                    got = ('ok', call())
                except Exception as e:
                    got = ('exc', type(e))
                finally:
                    P.arm(False)
            else:
                got, want, mode = lv.step(op)
            if name in ('alg', 'mu', 'upd', 'cursor'):
                classes.append('%s:%s' % (name, op[1] if name in ('alg', 'upd', 'cursor') else op[2]))
            if name in ('view', 'cursor') and getattr(lv, 'view_sticky', None):
                classes.append('view:sticky')
                ctx.mismatch('%s: node(s) left pinned against eviction (sticky) after %s, before the sequence was '
                             'iterated' % (desc, lv.view_sticky), dict(sig, what='sticky', view=True))
            fired = P.Hook.fired
            sig['insweep'] = fired
            if fired:
                nontrivial = True
                # open finding F32 (pure Python does not protect the nodes it works on) is only *exposed* by a sweep
                # inside a removing call, or inside an adding call on a container that is a single leaf; only then can
                # later steps (F32b / F32c) be blamed on it
                removing = name in F32_REMOVING or (name == 'upd' and op[1] in ('iand', 'isub', 'ixor'))
                if removing or (name in F32_ADDING and not sig.get('multileaf', True)):
                    lv.incmp_sweeps += 1
                    sig['f32class'] = True
                classes.append('sweep:in-comparison:' + name)
            if not H.same(got, want, mode):
                if not fired and ctx.known(dict(H.arg_features(lv, op), impl=lv.impl, kind=lv.kind, op=name,
                                                got=H.fmt(got), want=H.fmt(want))):
                    return False, ('abandoned_known_c01',)
                ctx.mismatch('%s%s: got %s, reference model says %s'
                             % (desc, ' with a cache sweep inside comparison #%d' % sweep_at if fired else '',
                                H.fmt(got), H.fmt(want)),
                             dict(sig, what='result', got=H.fmt(got), want=H.fmt(want)), recoverable=False)
            _no_sticky(lv, desc, sig, ctx)
            c = lv.contents()
            mc = lv.model_contents()
            if c != mc:
                ctx.mismatch('%s%s: contents afterwards %r, reference model %r'
                             % (desc, ' with a cache sweep inside comparison #%d' % sweep_at if fired else '', c, mc),
                             dict(sig, what='contents'), recoverable=False)
        # end: everything evictable, contents and structure intact
        if lv.f16_pending():
            ctx.exclude('final commit skipped: shape of open finding F16')
            return nontrivial, classes
        lv.conn.commit()
        lv.conn.minimize()
        left = [o for o in lv.nodes() if o._p_state not in (-1,)]
        sig = {'impl': lv.impl, 'kind': lv.kind, 'op': 'end', 'hook': hook, 'insweep': False,
               'prior_insweep': bool(lv.incmp_sweeps)}
        if left:
            ctx.mismatch('after the history, commit + minimize() leaves %d node(s) unevicted: %r'
                         % (len(left), [(type(o).__name__, o._p_state) for o in left]), dict(sig, what='unevictable'))
        c = lv.contents()
        if c != lv.model_contents():
            ctx.mismatch('after the history and a full sweep: contents %r, model %r' % (c, lv.model_contents()),
                         dict(sig, what='contents'), recoverable=False)
        if lv.is_tree:
            try:
                lv.t._check()
                walker.walk(lv.t, lv.is_map)
            except (AssertionError, walker.WalkError) as e:
                ctx.mismatch('after the history: tree not sound: %s' % e, dict(sig, what='unsound'))
        return nontrivial, classes


def _bad(lv, which, desc, sig, ctx, classes):
    t, fam = lv.callee(), lv.fam
    before = lv.model_contents()
    bk, bv = _bad_key(fam), _bad_val(fam)
    sk = lv.sorted_keys()
    missing = lv._kw(F.dk(fam, 12345 if fam[0] != 'f' else 0x3039))
    calls = {
        'setkey': (lambda: t.__setitem__(bk, F.dv(fam, F.default_token(fam[1] + fam[1])) if False else None))
        if False else None,
    }
    try:
        if which == 'setkey':
            if lv.is_map:
                t[bk] = lv.V(_some_vtok(fam))
            else:
                t.add(bk)
        elif which == 'setval':
            if lv.is_map and bv is not None:
                t[sk[0] if sk else missing] = bv
        elif which == 'lookup':
            bk in t
            t.has_key(bk)
            if lv.is_map:
                t.get(bk)
                t[bk]
        elif which == 'bound':
            list(t.keys(bk))
        elif which == 'minKey':
            t.minKey(bk)
        elif which == 'leafbound':
            if lv.is_tree and t._firstbucket is not None:
                t._firstbucket.maxKey(bk)
            else:
                t.maxKey(bk)
        elif which == 'byValue':
            if lv.is_map and bv is not None:
                t.byValue(bv)
        elif which == 'byValue_ok':
            if lv.is_map and fam[1] in 'IULQF':
                t.byValue(lv.V(_some_vtok(fam)))
        elif which == 'update_badpair':
            if lv.is_map:
                t.update([(bk, lv.V(_some_vtok(fam)))])
            else:
                t.update([bk])
        elif which == 'alg_badoperand':
            F.fn(fam, 'union', lv.impl)(lv.t, [bk])
        elif which == 'missing':
            if missing in lv.model:
                return
            if lv.is_map:
                del t[missing]
            else:
                t.remove(missing)
        outcome = 'returned'
    except Exception as e:
        outcome = type(e).__name__
    classes.append('failing_call:%s:%s' % (which, outcome))
    sig = dict(sig, bad=which)
    _no_sticky(lv, desc + ' -> ' + outcome, sig, ctx)
    if lv.contents() != before:
        ctx.mismatch('%s -> %s changed the contents to %r' % (desc, outcome, lv.contents()),
                     dict(sig, what='contents'), recoverable=False)


def _some_vtok(fam):
    v = fam[1]
    return {'O': 1, 'F': 1.0, 's': 1}.get(v, 1)


def _leaf(lv, op, desc, sig, ctx, classes):
    """address a leaf directly through _firstbucket/_next, as applications that walk leaves do"""
    t = lv.t
    b = t._firstbucket
    if b is None:
        return
    chain = [b]
    while chain[-1]._next is not None and len(chain) < 50:
        chain.append(chain[-1]._next)
    b = chain[op[1] % len(chain)]
    b._p_deactivate()
    what = op[2]
    w = walker.walk(t, lv.is_map, check=False)
    want_keys = None
    for lf in w.leaves:
        if lf.obj is b:
            want_keys = lf.keys
    b._p_deactivate()
    bk = _bad_key(lv.fam)
    try:
        if what == 'keys':
            got = list(b.keys())
            if want_keys is not None and got != want_keys:
                ctx.mismatch('%s: leaf keys() %r, expected %r' % (desc, got, want_keys), dict(sig, what='leaf-result'))
        elif what == 'len':
            if want_keys is not None and len(b) != len(want_keys):
                ctx.mismatch('%s: leaf len() %r, expected %r' % (desc, len(b), len(want_keys)), dict(sig, what='leaf-result'))
        elif what == 'has_key':
            if want_keys and not b.has_key(want_keys[0]):
                ctx.mismatch('%s: leaf has_key(first key) is false' % desc, dict(sig, what='leaf-result'))
        elif what == 'maxKey':
            if want_keys and b.maxKey() != want_keys[-1]:
                ctx.mismatch('%s: leaf maxKey() wrong' % desc, dict(sig, what='leaf-result'))
        elif what == 'minKey_bad':
            b.minKey(bk)
        elif what == 'maxKey_bad':
            b.maxKey(bk)
        outcome = 'returned'
    except Exception as e:
        outcome = type(e).__name__
    classes.append('leaf_call:%s:%s' % (what, outcome))
    _no_sticky(lv, desc + ' -> ' + outcome, dict(sig, leafcall=what), ctx)


# ----------------------------------------------------------------------------- enumerated in-comparison sweeps

def _enum(shard, ctx):
    """For fixed 3-level trees: every operation kind x every comparison index n."""
    impl = shard['impl']
    for ti in range(shard['trees']):
        idx = shard['i'] * 100 + ti + ctx.seed * 7
        fam = OFAMS[idx % len(OFAMS)]
        kind = ['BTree', 'TreeSet'][(shard['i'] + ti) % 2]      # both kinds in every run, whatever the seed
        sizes = [[2, 2], [3, 2], [2, 3], [3, 3]][(idx // 2) % 4]
        nkeys = 9 + idx % 9
        base = list(range(0, nkeys * 2, 2))
        cfg = {'fam': fam, 'kind': kind, 'impl': impl, 'ktype': 'int', 'sizes': sizes, 'hook': True}
        is_map = kind == 'BTree'
        probes = []
        for k in (base[0], base[len(base) // 2], base[-1], base[len(base) // 2] + 1, -1, base[-1] + 1):
            if is_map:
                probes += [['get', k], ['set', k, 1], ['del', k], ['setdefault', k, 1], ['popd', k, 1]]
            else:
                probes += [['in', k], ['add', k], ['discard', k]]
        for k in list(base) + [b + 1 for b in base] + [-1]:
            probes += [['range', 'keys', k, None, False, False], ['range', 'keys', None, k, False, True],
                       ['range', 'keys', k, k + 5, True, False], ['range', 'keys', k, k, False, False],
                       ['range', 'keys', k, k, True, True], ['minKey', k], ['maxKey', k]]
        for op in probes:
            # count comparisons
            c0 = {'cfg': cfg, 'base': base, 'basev': 1 if is_map else None, 'ops': [op + [{'sweep_at': 0}]]}
            n = _count(c0)
            for at in range(1, n + 1):
                case = {'cfg': cfg, 'base': base, 'basev': 1 if is_map else None,
                        'ops': [['minimize'], op + [{'sweep_at': at}]]}
                if not ctx.run_case(case, run_case):
                    return


def _viewgrid(shard, ctx):
    n = 0
    for fam in shard['fams']:
        dom = [x for x in F.domain(fam, 'int') if x is not None]
        mid = len(dom) // 2
        base = dom[mid - 6:mid + 6:2] + dom[mid + 6:mid + 9]          # gaps between the first keys
        bounds = [None] + dom[mid - 7:mid + 10]
        for kind in ('BTree', 'TreeSet'):
            for sizes in ([3, 2], [4, 3], [2, 2]):
                cfg = {'fam': fam, 'kind': kind, 'impl': shard['impl'], 'ktype': 'int', 'sizes': sizes}
                meths = ['keys'] + (['items'] if kind == 'BTree' else [])
                for a in bounds:
                    for b in bounds:
                        for xa in (False, True):
                            for xb in (False, True):
                                case = {'cfg': cfg, 'base': base, 'basev': 1 if kind == 'BTree' else None,
                                        'ops': [['minimize'], ['view', meths[(n // 3) % len(meths)], a, b, xa, xb,
                                                               [0, -1, 0, -2, 1]]]}     # forwards and backwards
                                n += 1
                                if not ctx.run_case(case, run_case):
                                    return
    ctx.count('viewgrid_queries', n)


def _count(case):
    cfg = case['cfg']
    P.Hook.reset()
    with CLive(cfg) as lv:
        lv.setup(case['base'], case.get('basev'), True)
        op = case['ops'][0][:-1]
        P.Hook.reset(at=0)
        sp = _special(lv, op, None, 0)
        try:
            if sp is not None:
                P.arm(True)
                try:
                    sp[0]()
                except Exception:
                    pass
                finally:
                    P.arm(False)
            else:
                lv.step(op)
        finally:
            P.arm(False)
        return P.Hook.count
