"""C09 - the C extension and the pure-Python fallback are interchangeable."""
import math
import pickle

from props import c05 as _c05
from props import c13 as _c13
from vlib import families as F
from vlib import histories as H
from vlib import walker
from vlib.runner import Violation

ID = 'C09'
LEVEL = 'exploration'
TECHNIQUE = ('differential stateful testing: one Hypothesis-generated history over the shared public API '
             '(C01 calls, range searches, minKey/maxKey, set algebra entry points) executed side by side on '
             'the C and the Python class, with arguments from the family domain and from a type zoo '
             '(out-of-range ints, wrong types, default-comparison objects); every call must give equal '
             'results or the same exception class, and after every call contents, node layout and pickle '
             'must be equal; unusable-key lookups must report absence and unusable writes must raise '
             'TypeError and change nothing in both; '
             'weighted union / intersection for the numeric-value families; every hand-made starting shape is first swept with every key and gap as bound of minKey / maxKey / keys() and as look-up key')
RULE = ('a case is a configuration + history; each call is executed on both implementations.  '
        'Non-trivial: at least one out-of-domain argument reached a container with interior separators, or '
        'the containers reached >= 2 leaves and a removal happened.  Distinct = distinct case JSON.')
ASSUMPTIONS = ['shared API = what both implementations expose and Interfaces.py documents; byValue, message '
               'texts and the return value of update() are excluded (the property\'s own exclusions)',
               'object-key cases use one ordered key type; default-comparison objects are offered as the '
               'documented unusable object key',
               'objects implementing __index__ are not offered']

ZOO = _c13.ZOO
# zoo items that make sense as arguments of any family
def _hashable(x):
    try:
        hash(x)
        return True
    except TypeError:
        return False


# -0.0 is left out: C leaves a stored value alone when the new one compares equal, Python
# overwrites it, so after [insert -0.0, set 0.0] the two hold zeros of different sign - equal
# values, different repr/pickle; not a difference the property is about
ZI = [i for i, x in enumerate(ZOO) if _hashable(x) and not (isinstance(x, float) and x == 0 and str(x) == '-0.0')]


def shards(tier, seed):
    n = {'quick': 300, 'thorough': 6000}[tier]
    return [{'n': n, 'fams': F.rotate(F.FAMILIES, seed * 3 + i * 4, 6 if tier == 'quick' else 22),
             'max_ops': 40 if tier == 'quick' else 200} for i in range(16)]


def _cases(shard):
    from hypothesis import strategies as st
    cfgs = F.configs(fams=shard['fams'], impls=['c'])

    @st.composite
    def case(draw):
        c = draw(H.cases(cfgs, max_ops=shard['max_ops'], readonly_weight=1))
        cfg = c['cfg']
        fam, kind, ktype = cfg['fam'], cfg['kind'], cfg.get('ktype', 'int')
        is_map = F.is_map(kind)
        dom = F.domain(fam, ktype)
        Z = st.sampled_from(ZI).map(lambda i: {'z': i})
        K = st.one_of(st.sampled_from(dom), st.integers(0, 40).map(lambda i: {'@': i}))
        B = st.one_of(st.none(), st.sampled_from(dom))
        V = F.value_tokens(fam) if is_map else st.none()
        op = lambda *a: st.tuples(*[st.just(x) if isinstance(x, str) else x for x in a]).map(list)
        extra = [op('range', st.sampled_from(['keys'] + (['values', 'items'] if is_map else [])), B, B,
                    st.booleans(), st.booleans()),
                 op('minKey', B), op('maxKey', B), op('minKey', Z), op('maxKey', Z),
                 op('rangez', Z),
                 op('algebra', st.sampled_from(['union', 'intersection', 'difference', 'or', 'and', 'sub']),
                    st.lists(st.sampled_from(dom), max_size=6), st.sampled_from(['list', 'Set', 'TreeSet', 'Bucket', 'BTree', 'tuple']))]
        if fam[1] in 'IULQF':
            extra += [op('weighted', st.sampled_from(['weightedUnion', 'weightedIntersection']),
                         st.lists(st.sampled_from(dom), max_size=6), st.sampled_from(['Set', 'TreeSet', 'Bucket', 'BTree']),
                         st.integers(0, 3), st.integers(0, 3), st.booleans())] * 2
        if is_map:
            zops = [op('set', Z, V), op('set', K, Z), op('del', Z), op('setdefault', Z, V), op('setdefault', K, Z),
                    op('pop', Z), op('popd', Z, V), op('get', Z), op('getitem', Z), op('in', Z), op('has_key', Z)]
            if kind == 'BTree':
                zops += [op('insert', Z, V), op('insert', K, Z)]
        else:
            zops = [op('add', Z), op('remove', Z), op('discard', Z), op('in', Z), op('has_key', Z)]
        more = draw(st.lists(st.one_of(*(extra + zops * 2)), max_size=12))
        ops = c['ops']
        # interleave the extra ops at generated positions
        for o in more:
            pos = draw(st.integers(0, len(ops)))
            ops.insert(pos, o)
        # a quarter of the tree cases start from a shape built through __setstate__: stale separators and unequal
        # depths are legal states (docs/development.rst) that histories of the Python implementation never reach
        if kind in F.TREE_KINDS and ktype == 'int' and draw(st.integers(0, 3)) == 0:
            from vlib import treespec
            c['spec'] = draw(treespec.valid_specs(fam, max_keys=14))
        return c

    return case()


def run_shard(shard, ctx):
    ctx.hyp(_cases(shard), run_case, shard['n'], 'diff')


def replay(case, ctx):
    run_case(case, ctx)


class ZLive(H.Live):
    def K(self, arg):
        if isinstance(arg, dict) and 'z' in arg:
            return ZOO[arg['z']]
        return H.Live.K(self, arg)

    def V(self, tok):
        if isinstance(tok, dict) and 'z' in tok:
            return ZOO[tok['z']]
        return H.Live.V(self, tok)


def _zinfo(op):
    """(role, zoo item) when the op carries a zoo argument"""
    for pos, a in enumerate(op[1:], 1):
        if isinstance(a, dict) and 'z' in a:
            return ('key' if pos == 1 else 'value'), ZOO[a['z']]
    return None, None


def _norm(x):
    """results compared across implementations: nan-aware, type names without the Py suffix"""
    if isinstance(x, float) and math.isnan(x):
        return 'nan'
    if isinstance(x, (list, tuple)):
        return type(x).__name__, [_norm(i) for i in x]
    return x


def _exec(lv, op):
    name = op[0]
    if name in ('range', 'minKey', 'maxKey') and not (len(op) > 1 and isinstance(op[1], dict)):
        call, want, mode = _c05._special(lv, op, None, 0)
    elif name in ('minKey', 'maxKey'):
        z = ZOO[op[1]['z']]
        call, mode = (lambda: getattr(lv.t, name)(z)), 'eq'
    elif name == 'rangez':
        z = ZOO[op[1]['z']]
        call, mode = (lambda: (list(lv.t.keys(z)), list(lv.t.keys(None, z)), list(lv.t.keys(z, z, True, True)))), 'eq'
    elif name == 'algebra':
        fn, keys, form = op[1], op[2], op[3]
        ks = [F.dk(lv.fam, k) for k in keys]
        if form in ('list', 'tuple'):
            other = list(ks) if form == 'list' else tuple(ks)
        else:
            other = F.cls(lv.fam, form, lv.impl)()
            for k in ks:
                if F.is_map(form):
                    other[k] = lv.V(_c13.good_value and _vt(lv.fam))
                else:
                    other.add(k)
        t = lv.t

        def call():
            if fn in ('union', 'intersection', 'difference'):
                r = F.fn(lv.fam, fn, lv.impl)(t, other)
            else:
                r = {'or': lambda: t | other, 'and': lambda: t & other, 'sub': lambda: t - other}[fn]()
            kind = type(r).__name__
            kind = kind[:-2] if kind.endswith('Py') else kind
            return kind, (list(r.items()) if hasattr(r, 'items') else list(r))
        mode = 'eq'
    elif name == 'weighted':
        fn, keys, form, w1, w2, swap = op[1:7]
        other = F.cls(lv.fam, form, lv.impl)()
        for i, k in enumerate(F.dk(lv.fam, k) for k in keys):
            if F.is_map(form):
                other[k] = lv.V(i % 3 + 1)
            else:
                other.add(k)
        t = lv.t
        small = not lv.is_map or all(isinstance(v, (int, float)) and -1000 <= v <= 1000 for v in lv.model.values())
        if lv.fam[1] == 'F':
            w1, w2 = float(w1), float(w2)

        def call():
            if not small:       # arithmetic beyond the value type's range is not specified
                return None
            f = F.fn(lv.fam, fn, lv.impl)
            w, r = f(other, t, w1, w2) if swap else f(t, other, w1, w2)
            kind = type(r).__name__
            kind = kind[:-2] if kind.endswith('Py') else kind
            return w, kind, (list(r.items()) if hasattr(r, 'items') else list(r))
        mode = 'eq'
    else:
        return lv.step(op)
    try:
        got = ('ok', call())
    except Exception as e:
        got = ('exc', type(e))
    return got, None, mode


def _vt(fam):
    return {'O': 1, 'F': 1.0, 's': 1}.get(fam[1], 1)


def _same(gc, gp, mode):
    if gc[0] != gp[0]:
        return False
    if gc[0] == 'exc':
        return gc[1] is gp[1]
    if mode == 'ignore':
        return True
    if mode in ('truth',):
        return bool(gc[1]) == bool(gp[1])
    return _norm(gc[1]) == _norm(gp[1])


def run_case(case, ctx):
    cfg = case['cfg']
    removed = 0
    zoo_on_multi = False
    with ZLive(cfg, impl='c') as lc, ZLive(cfg, impl='py') as lp:
        classes = ['kind:' + lc.kind, 'fam:' + lc.fam, 'mode:' + lc.mode]
        if case.get('spec') is not None:
            from vlib import treespec
            for lv in (lc, lp):
                lv.t, _ = treespec.build(lv.fam, lv.kind, lv.impl, case['spec'], tree_class=lv.klass)
                lv.loaded = True
                lv.model = dict(lv.t.items()) if lv.is_map else dict((k, None) for k in lv.t.keys())
            if lc.contents() != lp.contents():
                ctx.mismatch('tree built from the state %r: C lists %r, Python lists %r'
                             % (case['spec'], lc.contents(), lp.contents()),
                             {'kind': lc.kind, 'op': 'setstate', 'what': 'contents'}, recoverable=False)
            classes.append('start:spec')
            # the hand-made shape (stale separators, unequal depth) is gone after a few writes: before the history runs,
            # every key, every gap and both ends as a bound of minKey / maxKey / keys() and as a look-up key, side by side
            sweep = []
            for tok in F.domain(lc.fam, 'int'):
                if tok is None:
                    continue
                sweep += [['minKey', tok], ['maxKey', tok], ['range', 'keys', tok, None, False, False],
                          ['range', 'keys', None, tok, True, True], ['in', tok]]
            for op in sweep:
                gc, _, mode = _exec(lc, op)
                gp, _, mode = _exec(lp, op)
                if not _same(gc, gp, mode):
                    ctx.mismatch('%r on the tree built from the state %r: C -> %s, Python -> %s'
                                 % (op, case['spec'], _show(gc), _show(gp)),
                                 {'kind': lc.kind, 'op': op[0], 'what': 'result', 'spec': True,
                                  'c': H.fmt(gc) if gc[0] == 'exc' else 'ok', 'py': H.fmt(gp) if gp[0] == 'exc' else 'ok'},
                                 recoverable=False)
            classes.append('spec_bound_sweep')
        for i, op in enumerate(case['ops']):
            name = op[0]
            role, z = _zinfo(op)
            if role == 'key' and lc.fam[0] == 'O' and not _okey_allowed(z, lc.ktype):
                ctx.exclude('object-key family: zoo key of another ordered type than the case\'s keys')
                continue
            before_c = lc.contents()
            n_before = len(before_c)
            gc, want_c, mode = _exec(lc, op)
            gp, want_p, mode = _exec(lp, op)
            cc, cp = lc.contents(), lp.contents()
            if len(cc) < n_before:
                removed += 1
            sig = {'kind': lc.kind, 'op': name, 'c': H.fmt(gc) if gc[0] == 'exc' else 'ok',
                   'py': H.fmt(gp) if gp[0] == 'exc' else 'ok', 'zrole': role,
                   'ztype': _c13._typeclass(z) if role else None, 'kcode': lc.fam[0], 'vcode': lc.fam[1],
                   'empty': n_before == 0,
                   'only_none': n_before == 1 and (before_c[0][0] if lc.is_map else before_c[0]) is None}
            desc = 'step %d %r on %s%s (sizes %s, %s)' % (i, op, lc.fam, lc.kind, lc.sizes, lc.mode)
            if role:
                sig['op'] = name
                desc += ' [zoo %s %r]' % (role, z)
            if not _same(gc, gp, mode):
                # an open finding that left both containers with equal contents does not end the history
                ctx.mismatch('%s: C -> %s, Python -> %s' % (desc, _show(gc), _show(gp)),
                             dict(sig, what='result'), recoverable=(cc == cp or repr(cc) == repr(cp)))
            # the documented semantics of unusable arguments, against the classifier
            if role and name in ('set', 'insert', 'setdefault', 'add', 'del', 'pop', 'popd', 'remove', 'discard',
                                 'get', 'getitem', 'in', 'has_key'):
                code = lc.fam[0] if role == 'key' else lc.fam[1]
                rep, _ = _c13.classify(code, z, role)
                if lc.fam[0] == 'O' and role == 'key' and rep and not _c13.comparable_with_ints(z) and lc.ktype != 'int':
                    rep = None
                elif lc.fam[0] == 'O' and role == 'key' and rep and lc.ktype != 'int':
                    rep = None      # comparable only with int keys
                elif lc.fam[0] == 'O' and role == 'key' and rep and not _c13.comparable_with_ints(z):
                    rep = None
                if rep is False:
                    for impl, g in (('c', gc), ('py', gp)):
                        if name in ('get', 'getitem', 'in', 'has_key'):
                            ok = g in (('ok', None), ('ok', False), ('exc', KeyError)) or (g[0] == 'ok' and not g[1])
                            what = 'lookup-not-absent'
                        elif name in ('discard',):
                            ok = True
                        elif name in ('del', 'pop', 'popd', 'remove'):
                            ok = g[0] == 'exc' and g[1] in (TypeError, KeyError) or name == 'popd'
                            what = 'removal'
                        else:
                            ok = g == ('exc', TypeError)
                            what = 'write-not-typeerror'
                        if not ok:
                            ctx.mismatch('%s: %s gives %s for an unusable %s' % (desc, impl, _show(g), role),
                                         dict(sig, what=what, impl=impl), recoverable=False)
                    if cc != before_c and repr(cc) != repr(before_c):
                        ctx.mismatch('%s: contents changed by a call with an unusable %s: %r -> %r'
                                     % (desc, role, before_c, cc), dict(sig, what='modified'), recoverable=False)
                if lc.is_tree and lc.max_leaves >= 2:
                    zoo_on_multi = True
            if cc != cp and repr(cc) != repr(cp):
                ctx.mismatch('%s: contents differ afterwards: C %r, Python %r' % (desc, cc, cp),
                             dict(sig, what='contents'), recoverable=False)
            if case.get('spec') is not None:
                # Started from a hand-made state (stale separators, unequal depth): results, exceptions and
                # contents must agree; the two implementations legitimately pick different - both valid -
                # separators when such a node splits (C promotes the stored separator, Python the subtree's
                # real minimum), so layout and pickle are compared only for histories that start empty.
                for lv, c in ((lc, cc), (lp, cp)):
                    lv.model = dict(c) if lv.is_map else dict((k, None) for k in c)
                    if lv.is_tree:
                        try:
                            lv.t._check()
                            walker.walk(lv.t, lv.is_map)
                        except (AssertionError, walker.WalkError) as e:
                            ctx.mismatch('%s: %s tree not sound afterwards: %s' % (desc, lv.impl, e),
                                         dict(sig, what='unsound', impl=lv.impl), recoverable=False)
                continue
            sc = walker.skeleton(lc.t, lc.is_map, lc.is_tree)
            sp = walker.skeleton(lp.t, lp.is_map, lp.is_tree)
            if repr(sc) != repr(sp):
                ctx.mismatch('%s: node layout differs afterwards:\n C  %r\n Py %r' % (desc, sc, sp),
                             dict(sig, what='shape'), recoverable=False)
            if lc.mode == 'class':
                bc, bp = pickle.dumps(lc.t, 2), pickle.dumps(lp.t, 2)
                if bc != bp:
                    ctx.mismatch('%s: pickles differ afterwards (equal layout):\n C  %r\n Py %r' % (desc, bc, bp),
                                 dict(sig, what='pickle', fam=lc.fam))
            # keep the models usable for '@' references
            for lv, c in ((lc, cc), (lp, cp)):
                lv.model = dict(c) if lv.is_map else dict((k, None) for k in c)
            lc.observe_shape()
        nontrivial = zoo_on_multi or (lc.max_leaves >= 2 and removed >= 1)
        if zoo_on_multi:
            classes.append('zoo_arg_on_multileaf')
        classes += ['op:' + o for o in set(o[0] for o in case['ops'])]
        return nontrivial, classes


def _okey_allowed(z, ktype):
    from decimal import Decimal
    from fractions import Fraction
    if z is None or isinstance(z, _c13.DefaultCmp) or z is object:
        return True
    if ktype == 'int' and isinstance(z, (int, float, Fraction, Decimal)) and not (isinstance(z, float) and math.isnan(z)):
        return True
    return False


def _show(g):
    return H.fmt(g) if g[0] == 'exc' else 'ok:%r' % (g[1],)
