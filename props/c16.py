"""C16 - the C extension accounts for every reference and stays inside its memory."""
import gc
import pickle
import sys

from vlib import families as F
from vlib import minizodb as Z
from vlib import probes as P
from vlib import refs
from vlib import walker
from vlib.runner import Violation

ID = 'C16'
LEVEL = 'exploration'
TECHNIQUE = ('stateful fuzzing with an exact reference-count oracle on the sanitizer build: '
             'Hypothesis-generated histories over object-keyed / object-valued C containers whose keys and '
             'values are never-interned probe objects; after every step (temporaries dropped, gc run) '
             'sys.getrefcount of every probe must equal the number of leaf and separator slots holding it '
             '(read from __getstate__); histories include replaces, unlinks, failing calls (missing keys, '
             'unusable keys, comparisons that raise at a generated index), set algebra whose results stay '
             'alive, conflict merges, lazy sequences and iterators, pickling, eviction in a mini-ZODB '
             'connection, clear and destruction; operators | & -, leaf states with an unusable item, merges that '
             'succeed on states carrying a successor link (the successor node\'s reference count must not move), '
             'and a closing sweep of range searches bounded by the first / last key of every leaf; read-only calls '
             'must leave the reference counts of all nodes unchanged; ASan/UBSan + asserts turn bad memory accesses '
             'into crashes; '
             'byValue; an end mode in which the container is stored and every node load is failed in turn inside set operations / iteration / byValue / len')
RULE = ('a case is a configuration + history.  Non-trivial: it contains at least one failing call, at least one '
        'replace when the container is a mapping, and at least one leaf unlink when it is a tree.  Distinct = '
        'distinct case JSON.')
ASSUMPTIONS = ['C implementation only (the property is about the extension)',
               'reference-count equation: getrefcount - harness references == slots found by walking '
               '__getstate__ (leaf key slots, leaf value slots, separator slots)',
               'sanitizer build (gcc ASan+UBSan, -UNDEBUG, PYTHONMALLOC=malloc, leak detection off)']

FAMS = ['OO', 'OO', 'OI', 'IO', 'LO', 'OL', 'UO', 'OQ', 'QO', 'OU']


def shards(tier, seed):
    n = {'quick': 70, 'thorough': 400}[tier]
    return [{'n': n, 'variant': 'san', 'fams': F.rotate(FAMS, seed + i, 3 if tier == 'quick' else len(FAMS))}
            for i in range(16)]


def _cases(shard):
    from hypothesis import strategies as st

    @st.composite
    def case(draw):
        fam = draw(st.sampled_from(shard['fams']))
        kind = draw(st.sampled_from(['BTree', 'BTree', 'TreeSet', 'Bucket', 'Set']))
        sizes = draw(st.sampled_from([[2, 2], [3, 2], [2, 3], [3, 3], [4, 3], None]))
        is_map = F.is_map(kind)
        K = st.integers(0, 24)
        V = st.integers(0, 9)
        op = lambda *a: st.tuples(*[st.just(x) if isinstance(x, str) else x for x in a]).map(list)
        # 0 = no comparison raises; otherwise the n-th one does (bulk operations make dozens of comparisons)
        boom = st.one_of(st.just(0), st.just(0), st.integers(0, 8), st.integers(5, 40))
        if is_map:
            ops = [op('set', K, V, boom), op('set', K, V, boom), op('set', K, V, boom), op('del', K, boom),
                   op('del', K, boom), op('setdefault', K, V, boom), op('pop', K, boom), op('popd', K, V, boom),
                   op('popitem'), op('get', K, boom), op('in', K, boom), op('update', st.lists(st.tuples(K, V).map(list), max_size=5)),
                   op('values'), op('items'), op('byValue', V)]
            if kind == 'BTree':
                ops.append(op('insert', K, V, boom))
        else:
            ops = [op('add', K, boom), op('add', K, boom), op('add', K, boom), op('remove', K, boom),
                   op('discard', K, boom), op('pop'), op('in', K, boom), op('update', st.lists(K, max_size=5)),
                   op('ior', st.lists(K, max_size=5)), op('iand', st.lists(K, max_size=8)),
                   op('isub', st.lists(K, max_size=5)), op('ixor', st.lists(K, max_size=5))]
        ops += [op('keys', st.one_of(st.none(), K), st.one_of(st.none(), K), boom),
                op('keysx', st.one_of(st.none(), st.none(), K), st.one_of(st.none(), st.none(), K), st.booleans(), st.booleans(),
                   st.sampled_from(['keys'] + (['values', 'items'] if is_map else []))),
                op('keysx', st.one_of(st.none(), st.none(), K), st.one_of(st.none(), st.none(), K), st.booleans(), st.booleans(),
                   st.sampled_from(['keys'] + (['values', 'items'] if is_map else []))),
                op('minKey', st.one_of(st.none(), K), boom),
                op('maxKey', st.one_of(st.none(), K), boom), op('cursor', st.sampled_from(['iter', 'keys'] + (['items', 'values'] if is_map else [])), st.integers(0, 6)),
                op('algebra', st.sampled_from(['union', 'intersection', 'difference', 'or', 'and', 'sub']), st.lists(K, max_size=8),
                   st.sampled_from(['Set', 'TreeSet', 'list'] + (['Bucket', 'BTree'] if is_map else [])), boom),
                # a plain list with repeated elements as operand, no injected failure: the sort-and-squeeze path runs
                op('algebra', st.sampled_from(['union', 'intersection', 'difference', 'or', 'and', 'sub']),
                   st.lists(K, min_size=2, max_size=6).map(lambda l: l + l[:2] + [max(l) + 1]), st.just('list'), st.just(0)),
                op('merge', st.lists(K, max_size=4), st.lists(K, max_size=4), st.lists(K, max_size=4), boom),
                op('merge_ok', st.lists(K, min_size=1, max_size=5), K, K, st.booleans(), st.integers(1, 3)),
                op('pickle'), op('badkey'), op('clear'), op('copy'), op('delrun', K, st.integers(2, 6)), op('edgesweep'),
                op('delrun', K, st.integers(2, 6)),
                op('badstate', st.lists(K, min_size=1, max_size=6), st.integers(0, 5), st.booleans())]
        hist = draw(st.lists(st.one_of(*ops), min_size=4, max_size=45))
        fill = draw(st.integers(0, 14))
        start = draw(st.integers(0, 12))
        pre = [(['set', start + j, j % 10, 0] if is_map else ['add', start + j, 0]) for j in range(fill)]
        cfg = {'fam': fam, 'kind': kind, 'impl': 'c'}
        if kind in F.TREE_KINDS:
            cfg['sizes'] = sizes
        # every history ends with a sweep of range searches whose bounds are the first / last key of every leaf
        return {'cfg': cfg, 'ops': pre + hist + [['edgesweep']], 'end': draw(st.sampled_from(['destroy', 'evict', 'destroy', 'loadfail']))}

    return case()


def run_shard(shard, ctx):
    ctx.hyp(_cases(shard), run_case, shard['n'], 'refs')


def replay(case, ctx):
    run_case(case, ctx)


READONLY = ('get', 'in', 'keys', 'keysx', 'minKey', 'maxKey', 'cursor', 'values', 'items', 'pickle', 'badstate', 'edgesweep',
            'byValue')


def _node_refs(t, w):
    """[(description, refcount)] of every node of the container (leaves through the chain)"""
    out = []
    if not w.is_tree:
        return [('self', sys.getrefcount(t))]
    b = t._firstbucket
    i = 0
    while b is not None and i < 200:
        out.append(('leaf%d' % i, sys.getrefcount(b)))
        b = b._next
        i += 1
    return out


class World:
    def __init__(self, cfg):
        self.fam, self.kind = cfg['fam'], cfg['kind']
        self.is_map, self.is_tree = F.is_map(self.kind), F.is_tree(self.kind)
        self.okey = self.fam[0] == 'O'
        self.oval = self.is_map and self.fam[1] == 'O'
        self.keys = {}          # n -> key object (registry of TrackedKey)
        self.vals = []          # registry of Tracked values
        self.registry = []
        self.model = {}         # n -> value (Tracked or int) / None
        self.intent = None

    def K(self, n):
        if not self.okey:
            return n
        k = self.keys.get(n)
        if k is None:
            k = P.TrackedKey(n)
            self.keys[n] = k
            self.registry.append(k)
        return k

    def V(self, i):
        if not self.is_map:
            return None
        if not self.oval:
            return i if self.fam[1] != 'F' else float(i)
        v = P.Tracked(('v', len(self.vals), i))
        self.vals.append(v)
        self.registry.append(v)
        return v

    def extra(self, others=()):
        """references the harness itself holds besides the registry slot"""
        import collections
        ex = collections.Counter()
        for n, k in self.keys.items():
            ex[id(k)] += 1              # self.keys dict value
        for v in self.vals:
            ex[id(v)] += 1              # self.vals list slot
        for n, v in self.model.items():
            if self.oval and v is not None:
                ex[id(v)] += 1          # model dict value
        for o in others:
            ex[id(o)] += 1
        return ex


def run_case(case, ctx):
    cfg = case['cfg']
    fam, kind = cfg['fam'], cfg['kind']
    klass = F.cls(fam, kind, 'c')
    w = World(cfg)
    P.Hook.reset()
    P.arm(False)
    classes = ['kind:' + kind, 'fam:' + fam]
    stats = {'replace': 0, 'unlink': 0, 'fail': 0}
    with F.NodeSizes(klass, tuple(cfg['sizes']) if cfg.get('sizes') else None):
        t = klass()
        alive = []          # other containers kept alive (set-algebra results, operands)
        nleaves = 0
        for i, op in enumerate(case['ops']):
            name = op[0]
            sig = {'kind': kind, 'fam': fam, 'op': name}
            desc = 'step %d %r on %s%s(c, sizes %s)' % (i, op, fam, kind, cfg.get('sizes'))
            readonly = name in READONLY
            if readonly:
                gc.collect()
            nodes_before = _node_refs(t, w) if readonly else None
            try:
                _step(w, t, klass, op, alive, stats, classes)
            except Violation:
                raise
            except P.Boom:
                P.arm(False)
                stats['fail'] += 1
                classes.append('boom:' + name)
                _after_boom(w, t, op)
            finally:
                P.arm(False)
            # drop everything temporary, then audit
            if readonly:
                gc.collect()
                nodes_after = _node_refs(t, w)
                if nodes_after != nodes_before:
                    diff = [(a[0], a[1], b[1]) for a, b in zip(nodes_before, nodes_after) if a != b][:4]
                    ctx.mismatch('%s: a read-only call changed the reference counts of the container\'s nodes: %s '
                                 '(node, before, after)' % (desc, diff), dict(sig, what='node-refcount'), recoverable=False)
                del nodes_after
            del nodes_before
            w.intent = None
            conts = [(t, w.is_map, w.is_tree)] + [(o, m, tr) for o, m, tr in alive]
            bad = refs.audit(w.registry, conts, w.extra())
            del conts
            if bad:
                ctx.mismatch('%s: reference counts disagree with the structure: %s (object, references held '
                             'beyond the harness, slots found)' % (desc, bad[:4]),
                             dict(sig, what='refcount', leak=bad[0][1] > bad[0][2]), recoverable=False)
            # contents agree with the model (by key number)
            got = [(k.n if w.okey else k) for k in t.keys()]
            if got != sorted(w.model):
                ctx.mismatch('%s: keys %r, model %r' % (desc, got, sorted(w.model)), dict(sig, what='contents'),
                             recoverable=False)
            if w.is_tree:
                try:
                    t._check()
                    wk = walker.walk(t, w.is_map)
                    if len(wk.leaves) < nleaves:
                        stats['unlink'] += 1
                    nleaves = len(wk.leaves)
                    del wk              # it holds references to the keys
                except (AssertionError, walker.WalkError) as e:
                    raise Violation('%s: tree not sound: %s' % (desc, e), dict(sig, what='unsound'))
            if len(alive) > 3:
                del alive[0]
        # ---- the end of the container
        sig = {'kind': kind, 'fam': fam, 'op': 'end:' + case['end']}
        del alive[:]
        if case['end'] == 'evict':
            sto = Z.Storage()
            conn = Z.Connection(sto)
            conn.add(t)
            conn.commit()
            conn.minimize()
            for oid, o in list(conn.cache.items()):
                o._p_deactivate()
            bad = refs.audit(w.registry, [], w.extra())
            if bad:
                ctx.mismatch('after commit + eviction of every node the ghosts still hold references: %s' % (bad[:4],),
                             dict(sig, what='refcount', leak=True))
            got = [(k.n if w.okey else k) for k in t.keys()]
            if got != sorted(w.model):
                raise Violation('after eviction and reload: keys %r, model %r' % (got, sorted(w.model)), dict(sig, what='contents'))
            classes.append('end:evict')
            del conn, sto
        if case['end'] == 'loadfail':
            _loadfail(w, t, fam, sig, ctx, classes)
        del t
        gc.collect()
        bad = refs.audit(w.registry, [], w.extra())
        if bad:
            ctx.mismatch('after destroying the container, references remain: %s' % (bad[:4],),
                         dict(sig, what='refcount', leak=True))
    nontrivial = (stats['fail'] >= 1 and (stats['replace'] >= 1 or not w.is_map)
                  and (stats['unlink'] >= 1 or not w.is_tree))
    classes += ['had:' + k for k, v in stats.items() if v]
    return nontrivial, classes


class LoadFailed(Exception):
    """the storage cannot deliver a record"""


def _loadfail(w, t, fam, sig, ctx, classes):
    """Store the container, evict every node, and let the n-th load of a node fail (for every n) inside calls that walk
    the container with the library's internal cursors: set operations, iteration, byValue, len.  The failure must
    reach the caller; whatever was fetched before it must be released exactly once (the sanitizer build turns a double
    release into a use-after-free abort when the nodes are dropped)."""
    class Flaky(Z.Connection):
        fail_at = 0
        loads = 0

        def setstate(self, obj):
            self.loads += 1
            if self.fail_at and self.loads == self.fail_at:
                raise LoadFailed()
            Z.Connection.setstate(self, obj)
    if w.is_tree and walker.f16_pending(walker.walk(t, w.is_map, check=False)):
        return
    conn = Flaky(Z.Storage())
    conn.add(t)
    conn.commit()
    union, difference = F.fn(fam, 'union', 'c'), F.fn(fam, 'difference', 'c')
    calls = [('union', lambda: list(union(t, t))), ('difference', lambda: list(difference(t, t))),
             ('iterate', lambda: list(t.items()) if w.is_map else list(t.keys())), ('len', lambda: len(t))]
    if w.is_map:
        calls.append(('byValue', lambda: t.byValue(w.V(0)) if not w.oval else t.byValue(P.Tracked(('v', -1, 0)))))
    want = sorted(w.model)
    for cname, call in calls:
        conn.minimize()
        conn.fail_at, conn.loads = 0, 0
        call()
        nloads = conn.loads
        for n in range(1, nloads + 1):
            conn.minimize()
            conn.fail_at, conn.loads = n, 0
            try:
                call()
                outcome = 'returned'
            except LoadFailed:
                outcome = 'raised'
            except Exception as e:
                conn.fail_at = 0
                ctx.mismatch('%s on the stored container with the %d-th node load failing raised %s: %s instead of '
                             'passing the storage\'s error on' % (cname, n, type(e).__name__, e),
                             dict(sig, what='loadfail-wrong-exception', call=cname), recoverable=False)
            finally:
                conn.fail_at = 0
            if outcome == 'returned' and conn.loads >= n:
                ctx.mismatch('%s on the stored container with the %d-th node load failing returned normally'
                             % (cname, n), dict(sig, what='loadfail-swallowed', call=cname))
            classes.append('loadfail:%s:%s' % (cname, outcome))
            got = [(k.n if w.okey else k) for k in t.keys()]
            if got != want:
                raise Violation('after %s with the %d-th node load failing: keys %r, model %r' % (cname, n, got, want),
                                dict(sig, what='contents'))
    conn.minimize()
    gc.collect()
    classes.append('end:loadfail')


def _after_boom(w, t, op):
    """the container holds its previous contents or the completed change - never a partial one"""
    if w.is_map:
        now = dict(((k.n if w.okey else k), v) for k, v in t.items())
    else:
        now = dict(((k.n if w.okey else k), None) for k in t.keys())

    def same(a, b):
        return set(a) == set(b) and all((a[x] is b[x]) or (not w.oval and a[x] == b[x]) for x in a)
    if same(now, w.model):
        return
    if w.intent is not None and same(now, w.intent):
        w.model.clear()
        w.model.update(w.intent)
        return
    raise Violation('%r interrupted by a raising comparison left a partial change: keys now %r, before %r'
                    % (op, sorted(now), sorted(w.model)), {'what': 'partial', 'op': op[0]})


def _arm(boom):
    if boom:
        def act():
            raise P.Boom()
        P.Hook.reset(at=boom, action=act)
        P.arm(True)
    else:
        P.Hook.reset()


def _step(w, t, klass, op, alive, stats, classes):
    name = op[0]
    m = w.model
    w.intent = None
    if name in ('set', 'insert', 'setdefault', 'add'):
        n = op[1]
        boom = op[-1]
        k = w.K(n)
        v = w.V(op[2]) if w.is_map else None
        intent = dict(m)
        if name in ('set', 'add') or n not in m:
            if name == 'set' and n in m:
                stats['replace'] += 1
            intent[n] = v
        w.intent = intent
        _arm(boom if w.okey else 0)
        if name == 'set':
            t[k] = v
        elif name == 'insert':
            t.insert(k, v)
        elif name == 'setdefault':
            t.setdefault(k, v)
        else:
            t.add(k)
        P.arm(False)
        m.clear()
        m.update(intent)
    elif name in ('del', 'remove', 'discard', 'pop', 'popd') and len(op) > 1 and not (name == 'pop' and not w.is_map):
        n = op[1]
        boom = op[-1]
        k = w.K(n)
        intent = dict(m)
        intent.pop(n, None)
        w.intent = intent
        _arm(boom if w.okey else 0)
        try:
            if name == 'del':
                del t[k]
            elif name == 'remove':
                t.remove(k)
            elif name == 'discard':
                t.discard(k)
            elif name == 'pop':
                t.pop(k)
            else:
                t.pop(k, None)
        except KeyError:
            P.arm(False)
            stats['fail'] += 1
            if n in m:
                raise Violation('%r raised KeyError for a stored key' % (op,), {'what': 'keyerror', 'op': name})
        P.arm(False)
        m.clear()
        m.update(intent)
    elif name == 'pop':
        try:
            r = t.pop()
            m.pop(r.n if w.okey else r, None)
        except KeyError:
            stats['fail'] += 1
    elif name == 'popitem':
        try:
            r = t.popitem()
            m.pop(r[0].n if w.okey else r[0], None)
            del r
        except KeyError:
            stats['fail'] += 1
    elif name in ('get', 'in'):
        k = w.K(op[1])
        _arm(op[2] if w.okey else 0)
        if name == 'get':
            t.get(k)
        else:
            k in t
    elif name == 'update':
        if w.is_map:
            pairs = [(w.K(a), w.V(b)) for a, b in op[1]]
            t.update(pairs)
            for (a, b), (kk, vv) in zip(op[1], pairs):
                if a in m:
                    stats['replace'] += 1
                m[a] = vv
            del pairs
        else:
            t.update([w.K(a) for a in op[1]])
            for a in op[1]:
                m[a] = None
    elif name in ('ior', 'iand', 'isub', 'ixor'):
        ks = [w.K(a) for a in op[1]]
        s = set(op[1])
        if name == 'ior':
            t |= ks
            new = set(m) | s
        elif name == 'iand':
            t &= ks
            new = set(m) & s
        elif name == 'isub':
            t -= ks
            new = set(m) - s
        else:
            t ^= ks
            new = set(m) ^ s
        m.clear()
        m.update((a, None) for a in new)
        del ks
    elif name in ('values', 'items'):
        r = list(getattr(t, name)())
        del r
    elif name == 'keys':
        a = w.K(op[1]) if op[1] is not None else None
        b = w.K(op[2]) if op[2] is not None else None
        _arm(op[3] if w.okey else 0)
        r = list(t.keys(a, b))
        del r
    elif name == 'keysx':
        a = w.K(op[1]) if op[1] is not None else None
        b = w.K(op[2]) if op[2] is not None else None
        r = getattr(t, op[5])(a, b, op[3], op[4])
        n = len(r)
        if n:
            r[0], r[-1]
        del r
    elif name in ('minKey', 'maxKey'):
        b = w.K(op[1]) if op[1] is not None else None
        _arm(op[2] if w.okey else 0)
        try:
            r = getattr(t, name)(b) if b is not None else getattr(t, name)()
            del r
        except ValueError:
            P.arm(False)
            stats['fail'] += 1
    elif name == 'cursor':
        how, steps = op[1], op[2]
        it = iter(t) if how == 'iter' else iter(getattr(t, how)())
        try:
            for _ in range(steps):
                next(it)
        except StopIteration:
            pass
        del it
    elif name == 'algebra':
        fn, keys, form, boom = op[1], op[2], op[3], op[4]
        ks = [w.K(a) for a in keys]
        if form == 'list':
            other = ks
            oth = None
        else:
            other = F.cls(w.fam, form, 'c')()
            for kk in ks:
                if F.is_map(form):
                    other[kk] = w.V(1)
                else:
                    other.add(kk)
            oth = (other, F.is_map(form), F.is_tree(form))
        if fn in ('or', 'and', 'sub'):
            import operator
            f = {'or': operator.or_, 'and': operator.and_, 'sub': operator.sub}[fn]
        else:
            f = F.fn(w.fam, fn, 'c')
        _arm(boom if w.okey else 0)
        try:
            r = f(t, other)
        finally:
            P.arm(False)
            if oth is not None:
                alive.append(oth)
        alive.append((r, hasattr(r, 'items'), False))
        classes.append('algebra:%s:%s' % (form, 'dups' if len(set(keys)) != len(keys) else 'nodups'))
        del ks
    elif name == 'merge':
        # three-way merge of leaf states sharing the probe objects
        leaf = F.cls(w.fam, F.leaf_kind(w.kind), 'c')

        def state(ns):
            ns = sorted(set(ns))
            if w.is_map:
                data = []
                for a in ns:
                    data.append(w.K(a))
                    data.append(w.V(a % 3))
                return (tuple(data),)
            return (tuple(w.K(a) for a in ns),)
        from BTrees.Interfaces import BTreesConflictError
        so, sc, sn = state(op[1]), state(op[2]), state(op[3])
        _arm(op[4] if w.okey else 0)
        try:
            r = leaf()._p_resolveConflict(so, sc, sn)
            del r
        except BTreesConflictError:
            P.arm(False)
            stats['fail'] += 1
        finally:
            P.arm(False)
            del so, sc, sn
    elif name == 'merge_ok':
        # a merge that SUCCEEDS (disjoint inserts above the smallest key), on states that carry a successor
        # link, repeated: the successor bucket's reference count must come back to what it was
        leaf = F.cls(w.fam, F.leaf_kind(w.kind), 'c')
        base = sorted(set(op[1]))
        x, y = op[2], op[3]
        vals = {}

        def state(ns, nxt):
            data = []
            for a in sorted(set(ns)):
                data.append(w.K(a))
                if w.is_map:
                    if a not in vals:
                        # object values: plain ints (the C merge orders values with '<', open finding F27)
                        vals[a] = (a % 3) if w.oval else w.V(a % 3)
                    data.append(vals[a])
            return (tuple(data), nxt) if nxt is not None else (tuple(data),)
        if x != y and x not in base and y not in base and x > base[0] and y > base[0]:
            nxt = leaf() if op[4] else None
            before = sys.getrefcount(nxt) if nxt is not None else 0
            so, sc, sn = state(base, nxt), state(base + [x], nxt), state(base + [y], nxt)
            mid = sys.getrefcount(nxt) if nxt is not None else 0
            for _ in range(op[5]):
                r = leaf()._p_resolveConflict(so, sc, sn)
                got = sorted(k.n if w.okey else k for k in r[0][::2 if w.is_map else 1])
                if got != sorted(set(base + [x, y])):
                    raise Violation('merge of disjoint inserts returned keys %r' % (got,), {'what': 'merge-result'})
                del r
                if nxt is not None and sys.getrefcount(nxt) != mid:
                    raise Violation('%r: a successful merge of states with a successor link changed the successor '
                                    'bucket\'s reference count from %d to %d' % (op, mid, sys.getrefcount(nxt)),
                                    {'what': 'node-refcount', 'op': 'merge_ok'})
            del so, sc, sn
            if nxt is not None and sys.getrefcount(nxt) != before:
                raise Violation('%r: after the merge states are gone the successor bucket has %d references, had %d'
                                % (op, sys.getrefcount(nxt), before), {'what': 'node-refcount', 'op': 'merge_ok'})
            del nxt
            classes.append('merge_ok:with_next' if op[4] else 'merge_ok')
        vals.clear()
    elif name == 'byValue':
        # (value, key) pairs with value >= minimum, largest first: a list of fresh tuples that is dropped at once
        if w.is_map:
            mn = w.V(op[1])
            r = t.byValue(mn)
            for pair in r:
                if not (isinstance(pair, tuple) and len(pair) == 2):
                    raise Violation('byValue returned %r' % (pair,), {'what': 'byValue-shape', 'op': 'byValue'})
            del r
            if w.oval:
                # the minimum was made for this call only
                w.vals.pop()
                w.registry.pop()
            del mn
    elif name == 'pickle':
        b = pickle.dumps(t, 2)
        c = pickle.loads(b)
        del b, c
    elif name == 'copy':
        import copy
        c = copy.copy(t)
        del c
    elif name == 'badkey':
        class NoCmp(object):
            pass
        bad = NoCmp() if w.okey else 'x'
        try:
            if w.is_map:
                t[bad] = w.V(0)
            else:
                t.add(bad)
        except TypeError:
            stats['fail'] += 1
        del bad
    elif name == 'badstate':
        # a fresh leaf is handed a state whose j-th item cannot be converted: TypeError, and the items
        # taken before it must be released again
        leaf = F.cls(w.fam, F.leaf_kind(w.kind), 'c')
        ns = sorted(set(op[1]))
        j = op[2] % len(ns)
        bad_key = op[3] and not w.okey
        data = []
        for i, a in enumerate(ns):
            k = w.K(a)
            if i == j and bad_key:
                k = 'not a key'
            data.append(k)
            if w.is_map:
                v = w.V(a % 3)
                if i == j and not bad_key and not w.oval:
                    v = 'not a value'
                data.append(v)
        x = leaf()
        try:
            x.__setstate__((tuple(data),))
        except TypeError:
            stats['fail'] += 1
            classes.append('badstate:rejected')
        del x, data
    elif name == 'edgesweep':
        # structure-aware bounds: the first and last key of every leaf, as lower and as upper bound, with all
        # four exclusion-flag combinations (these are the bounds that make a search step to a neighbouring leaf)
        if w.is_tree:
            wk = walker.walk(t, w.is_map, check=False)
            edges = []
            for lf in wk.leaves:
                if lf.keys:
                    edges += [lf.keys[0], lf.keys[-1]]
            del wk
        else:
            ks = list(t.keys())
            edges = ks[:1] + ks[-1:]
            del ks
        for k in edges:
            for xa in (False, True):
                for xb in (False, True):
                    r = t.keys(k, None, xa, xb)
                    len(r)
                    r = t.keys(None, k, xa, xb)
                    len(r)
                    del r
            try:
                t.maxKey(k)
                t.minKey(k)
            except ValueError:
                pass
        del edges
        k = None
    elif name == 'delrun':
        # delete a run of neighbouring keys: empties and unlinks whole leaves
        for n in range(op[1], op[1] + op[2]):
            if n in m:
                k = w.K(n)
                if w.is_map:
                    del t[k]
                else:
                    t.remove(k)
                del m[n]
    elif name == 'clear':
        t.clear()
        m.clear()
    else:
        raise ValueError(op)
