"""C15 - mutating while iterating never crashes or damages the container."""
from vlib import families as F
from vlib import histories as H
from vlib import walker
from vlib.runner import Violation

ID = 'C15'
LEVEL = 'exploration'
TECHNIQUE = ('stateful fuzzing of interleavings: Hypothesis-generated histories that open iterators and lazy '
             'keys()/values()/items() sequences (with and without ranges), step / index / slice / len them, '
             'and in between insert, delete, pop and clear - including targeted mutations that empty, split '
             'or unlink the leaf a cursor is parked on; the C extension runs under ASan/UBSan with asserts '
             'enabled (a memory error or failed assert kills the worker and is captured as a crash), the '
             'Python implementation on the normal build; mutations are checked against a reference model and '
             'the container must be sound at the end; '
             'the container itself or a lazy sequence / iterator over it as operand of its own bulk mutation; sequences from the last key of a leaf to the first key of the next whose start is then deleted away')
RULE = ('a case is a configuration + history with up to 3 live cursors.  Non-trivial: a size-changing '
        'mutation happened between two steps of one live cursor.  Distinct = distinct case JSON.')
ASSUMPTIONS = ['a cursor step may return an entry that is or was stored, end the iteration, or raise '
               'RuntimeError / IndexError; anything else is a violation',
               'sanitizer build (gcc ASan+UBSan, -UNDEBUG, PYTHONMALLOC=malloc) for the C side']

ALLOWED = (StopIteration, RuntimeError, IndexError)


def shards(tier, seed):
    n = {'quick': 220, 'thorough': 5000}[tier]
    out = []
    for i in range(10):
        out.append({'n': n, 'impl': 'c', 'variant': 'san',
                    'fams': F.rotate(F.FAMILIES, seed * 3 + i * 5, 6 if tier == 'quick' else 22)})
    for i in range(6):
        out.append({'n': n, 'impl': 'py', 'fams': F.rotate(F.FAMILIES, seed * 3 + i * 5 + 2, 6 if tier == 'quick' else 22)})
    return out


def _cases(shard):
    from hypothesis import strategies as st
    cfgs = F.configs(fams=shard['fams'], impls=[shard['impl']], sizes=F.SMALL_SIZES * 2 + [None])

    @st.composite
    def case(draw):
        cfg = draw(cfgs)
        fam, kind, ktype = cfg['fam'], cfg['kind'], cfg.get('ktype', 'int')
        is_map = F.is_map(kind)
        dom = F.domain(fam, ktype)
        B = st.one_of(st.none(), st.none(), st.sampled_from(dom))
        op = lambda *a: st.tuples(*[st.just(x) if isinstance(x, str) else x for x in a]).map(list)
        slot = st.integers(0, 2)
        kinds = ['iter', 'keys'] + (['values', 'items', 'iterkeys', 'itervalues', 'iteritems'] if is_map else [])
        cur = [op('mk', slot, st.sampled_from(kinds), B, B, st.booleans(), st.booleans()),
               op('next', slot), op('next', slot), op('next', slot), op('next', slot),
               op('idx', slot, st.integers(-4, 12)), op('slice', slot, st.integers(-3, 8), st.integers(-3, 10)),
               op('len', slot), op('list', slot),
               op('kill_leaf', slot), op('grow_leaf', slot), op('grow_leaf', slot, st.sampled_from(['end_first', 'desc'])),
               op('kill_next_leaf', slot), op('kill_key', slot),
               op('kill_tail', slot, st.integers(1, 3)), op('kill_head', slot, st.integers(1, 3)),
               op('idx', slot, st.integers(8, 30)), op('idx', slot, st.integers(-30, -1)),
               # a lazy sequence from the LAST key of one leaf to the FIRST key of the next (its recorded offsets are
               # "large" and "small"), then the keys in front of its start are deleted and it is measured again
               op('mk_edge', slot, st.sampled_from(['keys'] + (['values', 'items'] if is_map else [])), st.integers(0, 8)),
               op('mk_edge', slot, st.sampled_from(['keys'] + (['values', 'items'] if is_map else [])), st.integers(0, 8)),
               op('kill_front', slot), op('kill_front', slot), op('len', slot), op('bool', slot)]
        mut = H.op_strategy(fam, kind, ktype, 0)
        # the container itself - or a lazy sequence / iterator over it, whole or a range - is the operand of its own
        # bulk mutation or of a set operation: the library's internal cursors run over the container being changed
        if is_map:
            hows = ['update_self', 'update_items', 'ctor_items', 'union_keys', 'difference_self']   # update() documents a sequence of pairs or an object with items(): a bare iterator is not offered
        else:
            hows = ['update_self', 'update_keys', 'ior_keys', 'iand_keys', 'isub_keys', 'ixor_keys', 'isub_iter',
                    'ixor_iter', 'iand_iter', 'ctor_keys', 'union_keys', 'difference_self']
        cur += [op('selfop', st.sampled_from(hows), B, B, st.booleans(), st.booleans())] * 3
        n = len(dom)
        start = draw(st.integers(0, n - 1))
        vt = draw(F.value_tokens(fam)) if is_map else None
        # distinct values per key (unless the drawn flag says otherwise): a step that pairs a key with the value
        # of another key is then visible
        distinct = draw(st.booleans()) or draw(st.booleans())
        step = draw(st.sampled_from([1, 2, 2, 3]))     # gaps, so that keys can later be inserted INTO a leaf
        fill = [(['set', dom[(start + j * step) % n], (j + 1 if distinct else vt)] if is_map
                 else ['add', dom[(start + j * step) % n]])
                for j in range(draw(st.integers(3, 22)))]
        first = draw(op('mk', slot, st.sampled_from(kinds), B, B, st.booleans(), st.booleans()))
        nxt = op('next', slot)
        body = draw(st.lists(st.one_of(*(cur + [nxt] * 10 + [mut] * 12)), min_size=12, max_size=60))
        # half of the cases open with the pattern "park the cursor p entries into its first leaf, make that leaf
        # grow (split) under it, step on": the parked position then has new neighbours in front of and behind it
        pattern = []
        if draw(st.booleans()):
            sl = first[1]
            mid = draw(st.sampled_from([['grow_leaf', sl], ['grow_leaf', sl, 'end_first'], ['grow_leaf', sl, 'desc'],
                                        ['grow_leaf', sl, 'end_first'], ['kill_key', sl], ['kill_leaf', sl]]))
            pattern = [['next', sl]] * draw(st.integers(1, 4)) + [mid] + [['next', sl]] * draw(st.integers(1, 6))
        return {'cfg': cfg, 'ops': fill + [first] + pattern + body}

    return case()


def run_shard(shard, ctx):
    ctx.hyp(_cases(shard), run_case, shard['n'], 'iter')


def replay(case, ctx):
    run_case(case, ctx)


class Cursor:
    def __init__(self, kind, obj, it):
        self.kind = kind        # 'k' | 'v' | 'i'
        self.obj = obj          # lazy sequence or None
        self.it = it
        self.last_key = None
        self.start_key = None
        self.steps = 0
        self.mutations_seen = 0


def run_case(case, ctx):
    cfg = case['cfg']
    with H.Live(cfg) as lv:
        fam = lv.fam
        is_map = lv.is_map
        t = lv.t
        ever_keys = []
        ever_vals = []
        ever_pairs = []         # (key, value) pairs that are or were entries
        cursors = {}
        mutations = 0
        nontrivial = False
        classes = ['kind:' + lv.kind, 'impl:' + lv.impl]

        def known_key(k):
            return any(k == x for x in ever_keys) or k in lv.model

        def known_val(v):
            return any(v == x or v is x for x in ever_vals) or any(v == x for x in lv.model.values())

        def known_pair(r):
            k, v = r
            if k in lv.model and (lv.model[k] == v or lv.model[k] is v):
                return True
            return any(k == a and (v == b or v is b) for a, b in ever_pairs)

        def check_entry(cur, r, what, sig):
            ok = True
            if cur.kind == 'k':
                ok = known_key(r)
                if ok:
                    cur.last_key = r
            elif cur.kind == 'v':
                ok = known_val(r)
            else:
                ok = isinstance(r, tuple) and len(r) == 2 and known_key(r[0]) and known_val(r[1])
                if ok and not known_pair(r):
                    raise Violation('%s yielded the pair %r: key and value are known, but this pair is not and never '
                                    'was an entry of the container' % (what, r), dict(sig, what='bogus-pair'))
                if ok:
                    cur.last_key = r[0]
            if not ok:
                raise Violation('%s yielded %r, which is not an entry that is or was stored' % (what, r),
                                dict(sig, what='bogus-entry'))

        def leaves():
            if not lv.is_tree:
                ks = lv.sorted_keys()
                return [ks] if ks else []
            return [lf.keys for lf in walker.walk(t, is_map, check=False).leaves]

        def mutate(name, k, v=None):
            nonlocal mutations
            op = [name, F.ek(fam, k)] + ([F.ev(fam, v)] if name in ('set', 'popd') else [])
            got, want, mode = lv.step(op)
            if not H.same(got, want, mode):
                raise Violation('mutation %r: got %s, model %s' % (op, H.fmt(got), H.fmt(want)),
                                {'impl': lv.impl, 'kind': lv.kind, 'what': 'mutation'})
            mutations += 1

        for i, op in enumerate(case['ops']):
            name = op[0]
            sig = {'impl': lv.impl, 'kind': lv.kind, 'op': name}
            desc = 'step %d %r on %s%s(%s, sizes %s)' % (i, op, fam, lv.kind, lv.impl, lv.sizes)
            # remember everything that was ever stored
            for k, v in lv.model.items():
                if not any(k is x for x in ever_keys):
                    ever_keys.append(k)
                if is_map and not any(v is x for x in ever_vals):
                    ever_vals.append(v)
                if is_map and not any(k == a and (v == b or v is b) for a, b in ever_pairs):
                    ever_pairs.append((k, v))
            if name == 'mk':
                _, slot, ck, mn, mx, exmin, exmax = op
                kmn = F.dk(fam, mn) if mn is not None else None
                kmx = F.dk(fam, mx) if mx is not None else None
                try:
                    if ck == 'iter':
                        cursors[slot] = Cursor('k', None, iter(t))
                    elif ck in ('keys', 'values', 'items'):
                        seq = getattr(t, ck)(kmn, kmx, exmin, exmax)
                        cursors[slot] = Cursor(ck[0], seq, iter(seq))
                    else:
                        itr = getattr(t, ck)(kmn, kmx, exmin, exmax)
                        cursors[slot] = Cursor(ck[4], None, iter(itr))
                except Exception as e:
                    raise Violation('%s: creating the cursor raised %s: %s' % (desc, type(e).__name__, e),
                                    dict(sig, what='create-raises'))
                cursors[slot].mutations_seen = mutations
                classes.append('cursor:' + ck)
                continue
            if name == 'mk_edge':
                _, slot, ck, li = op
                lvs = [lf for lf in leaves() if lf]
                if len(lvs) < 2:
                    continue
                li = li % (len(lvs) - 1)
                kmn, kmx = lvs[li][-1], lvs[li + 1][0]
                try:
                    seq = getattr(t, ck)(kmn, kmx)
                    cursors[slot] = Cursor(ck[0], seq, iter(seq))
                except Exception as e:
                    raise Violation('%s: creating the cursor raised %s: %s' % (desc, type(e).__name__, e),
                                    dict(sig, what='create-raises'))
                cursors[slot].mutations_seen = mutations
                cursors[slot].start_key = kmn
                cursors[slot].last_key = kmn
                classes.append('cursor:edge_to_edge:%d_keys_in_start_leaf' % min(len(lvs[li]), 4))
                continue
            if name in ('next', 'idx', 'slice', 'len', 'bool', 'list', 'kill_leaf', 'grow_leaf', 'kill_next_leaf', 'kill_key',
                        'kill_tail', 'kill_head', 'kill_front'):
                cur = cursors.get(op[1])
                if cur is None:
                    continue
                if name == 'next':
                    if cur.steps and mutations != cur.mutations_seen:
                        nontrivial = True
                        classes.append('step_after_mutation')
                    cur.mutations_seen = mutations
                    try:
                        r = next(cur.it)
                        cur.steps += 1
                        check_entry(cur, r, desc, sig)
                        classes.append('next:entry')
                    except ALLOWED as e:
                        classes.append('next:' + type(e).__name__)
                        if isinstance(e, StopIteration):
                            cur.steps = 0
                    except Violation:
                        raise
                    except Exception as e:
                        raise Violation('%s raised %s: %s' % (desc, type(e).__name__, e),
                                        dict(sig, what='bad-exception', exc=type(e).__name__))
                elif name == 'kill_front':
                    if cur.start_key is not None:
                        for lf in leaves():
                            if lf and F.sortkey(lf[0]) <= F.sortkey(cur.start_key) <= F.sortkey(lf[-1]):
                                doomed = [k for k in lf if F.sortkey(k) < F.sortkey(cur.start_key)]
                                for k in doomed:
                                    mutate('popd' if is_map else 'discard', k, lv.model.get(k) if is_map else None)
                                if doomed:
                                    classes.append('keys_in_front_of_a_sequence_start_deleted')
                elif cur.obj is not None and name in ('idx', 'slice', 'len', 'bool', 'list'):
                    if isinstance(cur.obj, (list, tuple)):
                        continue        # leaf kinds return plain lists
                    try:
                        if name == 'idx':
                            r = cur.obj[op[2]]
                            check_entry(cur, r, desc, sig)
                        elif name == 'slice':
                            for r in cur.obj[op[2]:op[3]]:
                                check_entry(cur, r, desc, sig)
                        elif name == 'len':
                            n = len(cur.obj)
                            if not isinstance(n, int) or n < 0:
                                raise Violation('%s: len() = %r' % (desc, n), dict(sig, what='bad-len'))
                        elif name == 'bool':
                            bool(cur.obj)
                        else:
                            for r in list(cur.obj):
                                check_entry(cur, r, desc, sig)
                        classes.append(name + ':ok')
                    except ALLOWED as e:
                        classes.append(name + ':' + type(e).__name__)
                    except Violation:
                        raise
                    except Exception as e:
                        raise Violation('%s raised %s: %s' % (desc, type(e).__name__, e),
                                        dict(sig, what='bad-exception', exc=type(e).__name__))
                elif name in ('kill_tail', 'kill_head'):
                    # empty (and so unlink) the last / first leaves of the container under the cursor
                    lvs = [lf for lf in leaves() if lf]
                    doomed = lvs[-op[2]:] if name == 'kill_tail' else lvs[:op[2]]
                    for lf in doomed:
                        for k in list(lf):
                            mutate('popd' if is_map else 'discard', k, lv.model.get(k) if is_map else None)
                    if doomed:
                        classes.append('tail_leaves_emptied' if name == 'kill_tail' else 'head_leaves_emptied')
                elif name in ('kill_leaf', 'kill_next_leaf', 'grow_leaf', 'kill_key') and cur.last_key is not None:
                    lvs = leaves()
                    idx = None
                    for j, lf in enumerate(lvs):
                        if lf and F.sortkey(lf[0]) <= F.sortkey(cur.last_key) <= F.sortkey(lf[-1]):
                            idx = j
                    if name == 'kill_key':
                        if cur.last_key in lv.model:
                            mutate('popd' if is_map else 'discard', cur.last_key, lv.model.get(cur.last_key) if is_map else None)
                            classes.append('deleted_last_yielded_key')
                    elif idx is not None:
                        if name == 'kill_next_leaf':
                            idx += 1
                        if name in ('kill_leaf', 'kill_next_leaf') and idx < len(lvs):
                            for k in list(lvs[idx]):
                                mutate('popd' if is_map else 'discard', k, lv.model.get(k) if is_map else None)
                            classes.append('parked_leaf_emptied' if name == 'kill_leaf' else 'next_leaf_emptied')
                        elif name == 'grow_leaf':
                            n = 0
                            lo = F.sortkey(lvs[idx][0])
                            hi = F.sortkey(lvs[idx][-1])
                            # first the gaps INSIDE the parked leaf (they make it split under the cursor and put new
                            # entries in front of / behind the parked position), then whatever follows it
                            inside = [tok for tok in F.domain(fam, lv.ktype)
                                      if F.dk(fam, tok) not in lv.model and lo <= F.sortkey(F.dk(fam, tok)) <= hi]
                            order = op[2] if len(op) > 2 else 'asc'
                            if order != 'asc':
                                # first a key right BEHIND the leaf's last key (it still belongs to this leaf and makes
                                # it split behind the cursor), then the gaps inside, ascending or descending
                                nxt = F.sortkey(lvs[idx + 1][0]) if idx + 1 < len(lvs) else None
                                behind = [tok for tok in F.domain(fam, lv.ktype)
                                          if F.dk(fam, tok) not in lv.model and F.sortkey(F.dk(fam, tok)) > hi
                                          and (nxt is None or F.sortkey(F.dk(fam, tok)) < nxt)][:1]
                                inside = behind + (inside if order == 'end_first' else inside[::-1])
                            for tok in inside + list(F.domain(fam, lv.ktype)):
                                k = F.dk(fam, tok)
                                if k not in lv.model and F.sortkey(k) >= lo and n < 4:
                                    if is_map:
                                        mutate('set', k, list(lv.model.values())[0] if lv.model else F.dv(fam, F.default_token(fam)))
                                    else:
                                        mutate('add', k)
                                    n += 1
                            classes.append('parked_leaf_grown')
                continue
            if name == 'selfop':
                _, how, mn, mx, exmin, exmax = op
                kmn = F.dk(fam, mn) if mn is not None else None
                kmx = F.dk(fam, mx) if mx is not None else None
                before_c = lv.contents()
                before_keys = [e[0] for e in before_c] if is_map else list(before_c)
                mod = F.module(fam)
                try:
                    if how == 'update_self':
                        t.update(t)
                    elif how == 'update_items':
                        t.update(t.items(kmn, kmx, exmin, exmax))
                    elif how == 'update_iteritems':
                        t.update(t.iteritems(kmn, kmx, exmin, exmax))
                    elif how == 'update_keys':
                        t.update(t.keys(kmn, kmx, exmin, exmax))
                    elif how == 'ctor_items':
                        type(t)(t.items(kmn, kmx, exmin, exmax))
                    elif how == 'ctor_keys':
                        type(t)(t.keys(kmn, kmx, exmin, exmax))
                    elif how == 'union_keys':
                        F.fn(fam, 'union', lv.impl)(t, t.keys(kmn, kmx, exmin, exmax))
                    elif how == 'difference_self':
                        F.fn(fam, 'difference', lv.impl)(t, t)
                    elif how.endswith('_keys'):
                        getattr(t, '__%s__' % how[:-5])(t.keys(kmn, kmx, exmin, exmax))
                    else:
                        getattr(t, '__%s__' % how[:-5])(iter(t))
                    outcome = 'returned'
                except (RuntimeError, IndexError) as e:
                    outcome = type(e).__name__
                except Exception as e:
                    raise Violation('%s raised %s: %s' % (desc, type(e).__name__, e),
                                    dict(sig, what='bad-exception', exc=type(e).__name__))
                classes.append('selfop:%s:%s' % (how, outcome))
                # the operand only ever names keys of the container: nothing can be invented; additions of what is
                # already there change nothing; removals may stop half way (RuntimeError) or skip entries
                now_c = lv.contents()
                now_keys = [e[0] for e in now_c] if is_map else list(now_c)
                if now_keys != sorted(now_keys, key=F.sortkey) or len(set(map(repr, now_keys))) != len(now_keys):
                    raise Violation('%s (%s): keys afterwards out of order or repeated: %r' % (desc, outcome, now_keys),
                                    dict(sig, what='selfop-order'))
                grows = how.split('_')[0] in ('update', 'ior', 'ctor', 'union', 'difference')
                if grows and now_c != before_c:
                    raise Violation('%s (%s): contents changed from %r to %r' % (desc, outcome, before_c, now_c),
                                    dict(sig, what='selfop-contents'))
                if not grows and not all(any(k == b for b in before_keys) for k in now_keys):
                    raise Violation('%s (%s): a key appeared that was not stored before: %r -> %r'
                                    % (desc, outcome, before_keys, now_keys), dict(sig, what='selfop-contents'))
                if len(t) != len(now_keys):
                    raise Violation('%s (%s): len() %d, %d keys listed' % (desc, outcome, len(t), len(now_keys)),
                                    dict(sig, what='selfop-len'))
                if lv.is_tree:
                    try:
                        t._check()
                        walker.walk(t, is_map)
                    except (AssertionError, walker.WalkError) as e:
                        raise Violation('%s (%s): the tree is not sound afterwards: %s' % (desc, outcome, e),
                                        dict(sig, what='unsound'))
                if now_c != before_c:
                    mutations += 1
                    nontrivial = True
                # whatever subset remained is "the contents implied by the mutations" from here on
                lv.model = dict(now_c) if is_map else dict((k, None) for k in now_c)
                continue
            # ordinary mutation / read from the C01 alphabet
            before = len(lv.model)
            got, want, mode = lv.step(op)
            if not H.same(got, want, mode):
                if ctx.known(dict(H.arg_features(lv, op), impl=lv.impl, kind=lv.kind, op=name,
                                  got=H.fmt(got), want=H.fmt(want))):
                    return False, ('abandoned_known_c01',)
                raise Violation('%s: got %s, model %s' % (desc, H.fmt(got), H.fmt(want)), dict(sig, what='mutation'))
            if len(lv.model) != before or name in ('clear',):
                mutations += 1
        # afterwards: contents implied by the mutations, sound container
        c, mc = lv.contents(), lv.model_contents()
        sig = {'impl': lv.impl, 'kind': lv.kind, 'op': 'end'}
        if c != mc:
            raise Violation('after the history the contents are %r, the mutations imply %r' % (c, mc),
                            dict(sig, what='contents'))
        if lv.is_tree:
            try:
                t._check()
                walker.walk(t, is_map)
            except (AssertionError, walker.WalkError) as e:
                raise Violation('after the history the tree is not sound: %s' % e, dict(sig, what='unsound'))
        # cursors are still harmless
        for cur in cursors.values():
            try:
                for _ in range(3):
                    next(cur.it)
            except ALLOWED:
                pass
            except Exception as e:
                raise Violation('stepping a cursor after the history raised %s: %s' % (type(e).__name__, e),
                                dict(sig, what='bad-exception', exc=type(e).__name__))
            if cur.obj is not None and not isinstance(cur.obj, (list, tuple)):
                for ix in (0, -1, 1, 25, -25):
                    try:
                        r = cur.obj[ix]
                        check_entry(cur, r, 'indexing a lazy sequence with %d after the history' % ix, sig)
                    except ALLOWED:
                        pass
                    except Violation:
                        raise
                    except Exception as e:
                        raise Violation('indexing a lazy sequence after the history raised %s: %s'
                                        % (type(e).__name__, e), dict(sig, what='bad-exception', exc=type(e).__name__))
        return nontrivial, classes
