"""C07 - leaf conflict resolution is an exact three-way merge or a refusal."""
import itertools

from vlib import families as F
from vlib import mergespec
from vlib.runner import Violation

ID = 'C07'
LEVEL = 'exploration'
TECHNIQUE = ('bounded-exhaustive enumeration of all (original, committed, new) leaf-state triples '
             'over a 3-key (quick) / 4-key (thorough) universe x 2 values, for Bucket, Set and the '
             'BTree/TreeSet one-leaf wrappers, x successor links, compared with an executable merge '
             'specification and C-vs-Python (decision and reason code); plus Hypothesis-generated '
             'larger triples and malformed state shapes')
RULE = ('a point is one (original, committed, new) triple evaluated on the C and the Python class of '
        'one family/kind.  Non-trivial: both transactions differ from the original.  Enumerated '
        'points are distinct by construction; generated ones are counted by distinct JSON.')
ASSUMPTIONS = ['merge specification vlib/mergespec.py: state-based reading of "removed what was then '
               'its smallest key" as min(T) > min(original)',
               'successor links are shared stub objects per oid, as ZODB\'s PersistentReferenceFactory provides',
               'values compared with ==; NaN excluded',
               'malformed shapes: both implementations must raise (same class), never return or crash']
EXHAUSTIVE = {'quick': True, 'thorough': True}
EXHAUSTIVE_SPACE = ('all (original, committed, new) triples of leaf states over a 3-key universe x 2 values '
                    '(quick: Bucket for 6 seed-rotated families, Set for all 22; thorough: 4-key universe for '
                    'OO, II, LQ, fs, IF Buckets and all Sets, 3-key for the rest); the tree wrappers, the '
                    'successor-link grid, the larger generated triples and the malformed shapes are sampled')


class Ref:
    """stand-in for ZODB's PersistentReference: one shared object per oid"""

    def __init__(self, name):
        self.name = name

    def __eq__(self, other):
        return isinstance(other, Ref) and other.name == self.name

    def __ne__(self, other):
        return not self.__eq__(other)

    __hash__ = None

    def __repr__(self):
        return 'Ref(%s)' % self.name


REFS = {'X': Ref('X'), 'Y': Ref('Y')}


def universe(fam, n):
    k = fam[0]
    if k in F.BOUNDS:
        lo, hi = F.BOUNDS[k]
        mid = max(lo + 1, 0) + 1
        return {1: [mid], 2: [lo, hi], 3: [lo, mid, hi], 4: [lo, mid, 7, hi]}[n]
    if k == 'f':
        return {3: [0, 0x7f, 0xffff], 4: [0, 0x7f, 0x8000, 0xffff]}.get(n, [0, 0x7f, 0x8000, 0xffff][:n])
    return [None, 1, 2, 3][:n]


def values2(fam, n=2):
    v = fam[1]
    if v in F.BOUNDS:
        lo, hi = F.BOUNDS[v]
        return [hi, 1, lo][:n]
    if v == 'F':
        return [0.5, -2.0, 8.0][:n]
    if v == 's':
        return [1, 2 ** 48 - 1, 7][:n]
    return ['a', None, ['t', 1]][:n]


def leaf_states(fam, is_map, nkeys, nvals=2):
    """all leaf states over the universe: None plus every assignment key -> absent|value"""
    ks = universe(fam, nkeys)
    vs = values2(fam, nvals) if is_map else [None]
    out = [None]
    for combo in itertools.product(range(len(vs) + 1), repeat=len(ks)):
        if is_map:
            out.append([[k, vs[c - 1]] for k, c in zip(ks, combo) if c])
        else:
            out.append([k for k, c in zip(ks, combo) if c])
    return out


def mk_state(fam, is_map, tok, link):
    """token state -> real state"""
    if tok is None:
        return None
    if is_map:
        data = []
        for k, v in tok:
            data.append(F.dk(fam, k))
            data.append(F.dv(fam, v))
        data = tuple(data)
    else:
        data = tuple(F.dk(fam, k) for k in tok)
    return (data, REFS[link]) if link else (data,)


def wrap(state, kind):
    if kind in F.TREE_KINDS and state is not None:
        return ((state,),)
    return state


def unwrap(res, kind):
    if kind in F.TREE_KINDS:
        if not (isinstance(res, tuple) and len(res) == 1 and isinstance(res[0], tuple) and len(res[0]) == 1):
            raise Violation('tree resolution returned a state of unexpected form: %r' % (res,),
                            {'what': 'form'})
        return res[0][0]
    return res


def resolve(klass, old, com, new):
    from BTrees.Interfaces import BTreesConflictError
    try:
        return ('merge', klass()._p_resolveConflict(old, com, new))
    except BTreesConflictError as e:
        return ('refuse', e.reason)
    except Exception as e:
        return ('exc', type(e).__name__)


def check_triple(fam, kind, is_map, o, c, n, links, ctx, classes):
    """o, c, n token states; links = (lo, lc, ln)"""
    so, sc, sn = (mk_state(fam, is_map, t, l) for t, l in zip((o, c, n), links))
    want = mergespec.decide(so, sc, sn, is_map)
    res = {}
    # object values of mutually unorderable types (str vs tuple) in one triple
    vmix = False
    if is_map and fam[1] == 'O':
        vals = []
        for t in (o, c, n):
            for kv in (t or ()):
                v = F.dv(fam, kv[1])
                if v is not None and not any(v is x for x in vals):
                    vals.append(v)
        for a in vals:
            for b in vals:
                try:
                    a < b
                except TypeError:
                    vmix = True
    for impl in ('c', 'py'):
        klass = F.cls(fam, kind, impl)
        r = resolve(klass, wrap(so, kind), wrap(sc, kind), wrap(sn, kind))
        if r[0] == 'merge':
            r = ('merge', unwrap(r[1], kind))
        res[impl] = r
        ok = (r[0] == want[0]) and (r[0] != 'merge' or _state_eq(r[1], want[1]))
        if not ok:
            ctx.mismatch('%s%s(%s)._p_resolveConflict(%r, %r, %r) -> %r; specification: %r'
                         % (fam, kind, impl, so, sc, sn, r, want),
                         {'impl': impl, 'kind': kind, 'got': r[0], 'want': want[0], 'vmix': vmix,
                          'reason': r[1] if r[0] in ('refuse', 'exc') else None})
    if res['c'] != res['py'] and not (res['c'][0] == 'merge' == res['py'][0]
                                      and _state_eq(res['c'][1], res['py'][1])):
        ctx.mismatch('%s%s: C %r vs Python %r for (%r, %r, %r)' % (fam, kind, res['c'], res['py'], so, sc, sn),
                     {'kind': kind, 'what': 'c-vs-py', 'vmix': vmix, 'c': res['c'][0], 'py': res['py'][0]})
    r = res['c']
    key = 'merged' if r[0] == 'merge' else ('reason:%s' % r[1] if r[0] == 'refuse' else 'exc:%s' % r[1])
    classes[key] = classes.get(key, 0) + 1
    return so != sc and so != sn


def _state_eq(a, b):
    if a is None or b is None:
        return a is b
    if len(a) != len(b) or a[0] != b[0]:
        return False
    if len(a) == 2 and a[1] is not b[1]:
        return False
    # value types (True == 1): compare reprs of the data as well
    return [type(x) for x in a[0]] == [type(x) for x in b[0]]


LINKSETS = [(None, None, None), ('X', 'X', 'X'), ('X', 'Y', 'X'), ('X', 'X', None), (None, 'X', None),
            ('X', None, 'X'), ('Y', 'X', 'X')]


def shards(tier, seed):
    out = []
    nk = 3 if tier == 'quick' else 4
    mapfams = F.rotate(F.FAMILIES, seed * 5, 6) if tier == 'quick' else ['OO', 'II', 'LQ', 'fs', 'IF']
    if tier == 'quick':
        # always: the family with byte-string values (compared with memcmp), a float-valued and an object-valued one
        fixed = ['fs', ['IF', 'LF', 'QF', 'UF'][seed % 4], ['IO', 'LO', 'OO', 'QO', 'UO'][seed % 5]]
        mapfams = fixed + [f for f in mapfams if f not in fixed][:3]
    work = []
    for fam in mapfams:
        work.append({'fam': fam, 'kind': 'Bucket', 'nkeys': nk})
    if tier == 'thorough':
        for fam in F.FAMILIES:
            if fam not in mapfams:
                work.append({'fam': fam, 'kind': 'Bucket', 'nkeys': 3})
    for fam in F.FAMILIES:
        work.append({'fam': fam, 'kind': 'Set', 'nkeys': nk})
    # tree wrappers: every 5th triple (quick) / all (thorough) of a 3-key universe
    for fam in (F.rotate(F.FAMILIES, seed * 3 + 1, 4) if tier == 'quick' else F.FAMILIES):
        work.append({'fam': fam, 'kind': 'BTree', 'nkeys': 3, 'stride': 5 if tier == 'quick' else 1})
        work.append({'fam': fam, 'kind': 'TreeSet', 'nkeys': 3, 'stride': 1})
    # split the big ones into slices so that 16 workers stay busy
    for w in work:
        is_map = F.is_map(w['kind'])
        n = len(leaf_states(w['fam'], is_map, w['nkeys']))
        parts = 8 if n ** 3 > 200000 else (2 if n ** 3 > 15000 else 1)
        for p in range(parts):
            out.append(dict(w, enum=True, part=p, parts=parts))
    ngen = {'quick': 400, 'thorough': 12500}[tier]
    for i in range(16):
        out.append({'gen': True, 'n': ngen, 'fams': F.rotate(F.FAMILIES, seed + i * 4, 5)})
    return out


def run_shard(shard, ctx):
    if shard.get('gen'):
        return _gen(shard, ctx)
    fam, kind, nkeys = shard['fam'], shard['kind'], shard['nkeys']
    is_map = F.is_map(kind)
    states = leaf_states(fam, is_map, nkeys)
    stride = shard.get('stride', 1)
    classes = {}
    n_eval = n_nt = 0
    idx = 0
    sample = None
    for io, o in enumerate(states):
        if io % shard['parts'] != shard['part']:
            continue
        for c in states:
            ctx.begin({'fam': fam, 'kind': kind, 'old': o, 'com': c, 'new': '*', 'nkeys': nkeys,
                       'links': [None, None, None]})
            for n in states:
                idx += 1
                if idx % stride:
                    continue
                # successor links: plain for all, the link grid on a sub-grid
                linksets = LINKSETS if idx % 7 == 0 else LINKSETS[:1]
                for links in linksets:
                    case = {'fam': fam, 'kind': kind, 'old': o, 'com': c, 'new': n, 'links': list(links)}
                    try:
                        nt = check_triple(fam, kind, is_map, o, c, n, links, ctx, classes)
                    except Violation as v:
                        ctx.violation = {'case': case, 'msg': v.msg, 'sig': v.sig}
                        return
                    n_eval += 1
                    if nt:
                        n_nt += 1
                        if sample is None and o and len(o) > 1:
                            sample = case
    # multi-leaf tree states and empty-tree states
    if kind in F.TREE_KINDS:
        leaf = F.cls(fam, F.leaf_kind(kind), 'c')()
        multi = ((leaf, F.dk(fam, universe(fam, 3)[1]), leaf), leaf)
        one = wrap(mk_state(fam, is_map, states[-1], None), kind)
        for trip in ((multi, one, one), (one, multi, one), (one, one, multi), (multi, multi, multi),
                     (None, multi, one), (multi, None, None)):
            for impl in ('c', 'py'):
                r = resolve(F.cls(fam, kind, impl), *trip)
                n_eval += 1
                if r != ('refuse', 11):
                    ctx.mismatch('%s%s(%s): multi-leaf state must be refused with reason 11, got %r'
                                 % (fam, kind, impl, r), {'impl': impl, 'kind': kind, 'what': 'multileaf'})
                classes['reason:11'] = classes.get('reason:11', 0) + 1
    classes['kind:' + kind] = n_eval
    ctx.ok_bulk(n_eval, n_nt, classes, sample=sample)


def replay(case, ctx):
    if 'mal' in case:
        return _malformed(case, ctx)
    is_map = F.is_map(case['kind'])
    news = leaf_states(case['fam'], is_map, case['nkeys']) if case['new'] == '*' else [case['new']]
    for n in news:
        for links in (LINKSETS if case['new'] == '*' else [tuple(case['links'])]):
            check_triple(case['fam'], case['kind'], is_map, case['old'], case['com'], n,
                         tuple(links), ctx, {})


# ----------------------------------------------------------------------------- generated part

def _gen(shard, ctx):
    from hypothesis import strategies as st
    fams = shard['fams']

    @st.composite
    def triple(draw):
        fam = draw(st.sampled_from(fams))
        kind = draw(st.sampled_from(['Bucket', 'Set', 'BTree', 'TreeSet']))
        is_map = F.is_map(kind)
        nk = draw(st.integers(5, 12))
        ks = universe(fam, 4)[:1] + list(range(2, nk)) if fam[0] in F.BOUNDS else None
        if ks is None:
            ks = [0] + list(range(2, nk)) if fam[0] == 'f' else [None] + list(range(2, nk))
        vs = values2(fam, 3)
        if fam[1] == 'O':
            r = draw(st.integers(0, 11))
            if r >= 2:
                vs = ['a', None, 'b']       # orderable among themselves (None is special-cased)
            elif r == 1:
                vs = [{'d': 1}, None, {'d': 2}]     # equality only, like most application objects

        def state(base):
            out = []
            for k in ks:
                b = base.get(repr(k), 0) if base is not None else None
                if base is None:
                    c = draw(st.integers(0, 3))
                else:
                    c = b if draw(st.integers(0, 4)) else draw(st.integers(0, 3))
                if c:
                    out.append((k, c))
            return out
        old = state(None)
        base = dict((repr(k), c) for k, c in old)
        com = state(base)
        new = state(base)

        def tok(s):
            if is_map:
                return [[k, vs[c - 1]] for k, c in s]
            return [k for k, c in s]
        links = draw(st.sampled_from(LINKSETS[:1] * 4 + LINKSETS))
        return {'fam': fam, 'kind': kind, 'old': tok(old) if old or draw(st.booleans()) else None,
                'com': tok(com) if com or draw(st.booleans()) else None,
                'new': tok(new) if new or draw(st.booleans()) else None, 'links': list(links)}

    def run(case, ctx):
        classes = {}
        nt = check_triple(case['fam'], case['kind'], F.is_map(case['kind']), case['old'], case['com'],
                          case['new'], tuple(case['links']), ctx, classes)
        return nt, ['gen:' + k for k in classes]

    ctx.hyp(triple(), run, shard['n'], 'gen')
    if ctx.violation:
        return
    # malformed shapes
    mal = st.fixed_dictionaries({
        'mal': st.just(True), 'fam': st.sampled_from(fams),
        'kind': st.sampled_from(['Bucket', 'Set', 'BTree', 'TreeSet']),
        'which': st.integers(0, 2),
        'shape': st.sampled_from(['int', 'str', 'list', 'empty_tuple', 'three', 'inner_not_tuple',
                                  'inner_list', 'wrap_two', 'wrap_inner_str', 'wrap_inner_three',
                                  'odd_items', 'data_int'])})
    ctx.hyp(mal, _malformed, max(20, shard['n'] // 8), 'mal')


def _malformed(case, ctx):
    fam, kind = case['fam'], case['kind']
    is_map = F.is_map(kind)
    k = F.dk(fam, universe(fam, 3)[1])
    v = F.dv(fam, values2(fam)[0]) if is_map else None
    good_leaf = ((k, v),) if is_map else ((k,),)
    good = wrap(good_leaf, kind)
    shape = case['shape']
    tree = kind in F.TREE_KINDS
    bad = {
        'int': 5, 'str': 'abc', 'list': [good_leaf[0]], 'empty_tuple': (), 'three': (good_leaf[0], None, None),
        'inner_not_tuple': (5,), 'inner_list': ([k, v] if is_map else [k],),
        'wrap_two': (good_leaf, good_leaf, good_leaf) if tree else (good_leaf[0], None, 3),
        'wrap_inner_str': (('abc',),) if tree else ('abc',),
        'wrap_inner_three': ((good_leaf, good_leaf, good_leaf),) if tree else ((), 1, 2),
        'odd_items': wrap(((k,),), kind) if is_map else ((k, k),),
        'data_int': wrap((7,), kind),
    }[shape]
    if shape == 'odd_items' and not is_map:
        return False, ('mal:skipped',)
    trip = [good, good, good]
    trip[case['which']] = bad
    out = {}
    for impl in ('c', 'py'):
        r = resolve(F.cls(fam, kind, impl), *trip)
        out[impl] = r
        if r == ('exc', 'SystemError'):
            ctx.mismatch('%s%s(%s): malformed state %r (position %d) raised SystemError'
                         % (fam, kind, impl, bad, case['which']),
                         {'impl': impl, 'kind': kind, 'what': 'malformed-systemerror', 'shape': shape})
    if (out['c'][0] == 'merge') != (out['py'][0] == 'merge'):
        ctx.mismatch('%s%s: malformed state %r (position %d): C %r vs Python %r - one implementation '
                     'merges, the other refuses' % (fam, kind, bad, case['which'], out['c'], out['py']),
                     {'kind': kind, 'what': 'malformed-decision', 'shape': shape,
                      'merges': 'c' if out['c'][0] == 'merge' else 'py'})
    elif out['c'][0] == 'merge':
        ctx.mismatch('%s%s: malformed state %r (position %d) was merged by both implementations: %r'
                     % (fam, kind, bad, case['which'], out['c']),
                     {'kind': kind, 'what': 'malformed-accepted', 'shape': shape})
    return False, ('mal:' + shape, 'mal:' + out['c'][0])
