"""C10 - union / intersection / difference compute the mathematical result."""
from vlib import families as F
from vlib.runner import Violation

ID = 'C10'
LEVEL = 'exploration'
TECHNIQUE = ('differential testing against Python set algebra: Hypothesis-generated operand pairs (Set, '
             'TreeSet, Bucket, BTree with tiny node sizes, lists/tuples/generators/sets - unsorted, with '
             'duplicates - and None) with explicit overlap patterns; every applicable entry point (module '
             'functions, | & - ^, |= &= -= ^=) is evaluated on each pair and checked for contents, '
             'order, uniqueness, result kind, freshness of the result and unchanged operands; plus a bounded-'
             'exhaustive part per (family, implementation) slice: all pairs of subsets of a 4-key (thorough: 5-key) '
             'universe x all 16 kind pairs, and every BTrees operand x every sequence (all orders and repetitions) '
             'of length <= 4 (5) over that universe as list / generator on either side')
RULE = ('a case is an operand pair (family, implementation, kinds, key lists); every applicable '
        'operation on it is one evaluation.  Non-trivial: both operands non-empty with common and '
        'distinct keys, or a plain iterable that is unsorted or has duplicates.  distinct_nontrivial '
        'counts (pair, operation) points of non-trivial pairs; pairs are distinct by JSON.')
ASSUMPTIONS = ['oracle: Python set operations on the key sets; difference keeps the first operand\'s values',
               'operands of one family and one implementation; object keys of one ordered type (+ None)',
               'reversed "-" with a non-BTrees left operand and "^" on mappings (Python only) are not part of the shared API']

PLAIN = ('list', 'tuple', 'gen', 'pyset', 'keysview', 'valuesview')
BT = ('Set', 'TreeSet', 'Bucket', 'BTree')


def shards(tier, seed):
    n = {'quick': 300, 'thorough': 7000}[tier]
    out = [{'n': n, 'fams': F.rotate(F.FAMILIES, seed * 3 + i * 4, 6 if tier == 'quick' else 22)}
           for i in range(16)]
    # bounded-exhaustive part: every shard also enumerates one (family, implementation) slice completely
    # (quick: 16 slices rotating with the seed; thorough: all 44, universe one key larger)
    slices = [(f, impl) for f in F.rotate(F.FAMILIES, seed * 5, 22) for impl in ('c', 'py')]
    if tier == 'quick':
        # always one object-key family and fs among them; the rest rotates
        slices = [s for s in slices if s[0] in ('OO', 'fs')] + [s for s in slices if s[0] not in ('OO', 'fs')]
        for i, sh in enumerate(out):
            sh['enum'] = [{'fam': slices[i][0], 'impl': slices[i][1], 'u': 4, 'seqlen': 4}]
    else:
        for i, sh in enumerate(out):
            sh['enum'] = [{'fam': f, 'impl': impl, 'u': 5, 'seqlen': 5} for f, impl in slices[i::16]]
    return out


def _cases(shard):
    from hypothesis import strategies as st

    @st.composite
    def case(draw):
        fam = draw(st.sampled_from(shard['fams']))
        impl = draw(st.sampled_from(['c', 'py']))
        ktype = draw(st.sampled_from(['int', 'int', 'str', 'tup'])) if fam[0] == 'O' else 'int'
        dom = F.domain(fam, ktype)
        n = len(dom)
        sub = st.lists(st.sampled_from(dom), max_size=18, unique_by=repr)
        a = draw(sub)
        pat = draw(st.sampled_from(['random', 'random', 'disjoint', 'equal', 'nested', 'interleaved', 'empty']))
        if pat == 'random':
            b = draw(sub)
        elif pat == 'disjoint':
            b = [x for x in draw(sub) if repr(x) not in set(map(repr, a))]
        elif pat == 'equal':
            b = list(a)
        elif pat == 'nested':
            b = a[::2] if draw(st.booleans()) else a + draw(sub)
        elif pat == 'interleaved':
            srt = sorted(set(range(n)))
            ia = draw(st.integers(0, 1))
            a = [dom[i] for i in srt if i % 2 == ia][:14]
            b = [dom[i] for i in srt if i % 2 != ia][:14]
        else:
            b = []
        kinds = st.sampled_from(list(BT) * 2 + list(PLAIN) + ['none'])
        ak, bk = draw(kinds), draw(kinds)
        if draw(st.integers(0, 7)) == 0:
            # the in-place operators only exist on sets: make (set, plain sequence) pairs frequent
            ak, bk = draw(st.sampled_from(['Set', 'TreeSet'])), draw(st.sampled_from(['list', 'tuple', 'gen', 'valuesview']))

        def plainify(keys, kind):
            keys = list(keys)
            if kind in ('list', 'tuple', 'gen', 'valuesview'):
                if keys and draw(st.booleans()):
                    extra = draw(st.lists(st.sampled_from(keys), max_size=4))
                    keys = keys + extra
                keys = draw(st.permutations(keys)) if draw(st.booleans()) else keys
            return list(keys)
        a = plainify(a, ak)
        b = plainify(b, bk)

        def multiset(mine, other):
            # a plain sequence over (keys of the other operand + a few strangers) with free repetition: the number
            # of elements that hit the other operand, counted with repetitions, ranges over 0..2*len(other)+2,
            # so it also coincides with len(other) while some key of the other operand is missing
            pool = list(other) + [x for x in mine if repr(x) not in set(map(repr, other))][:3]
            if not pool:
                return mine
            return draw(st.lists(st.sampled_from(pool), max_size=2 * len(other) + 2))
        if bk in ('list', 'tuple', 'gen', 'valuesview') and ak in BT and draw(st.integers(0, 2)) == 0:
            b = multiset(b, a)
        elif ak in ('list', 'tuple', 'gen') and bk in BT and draw(st.integers(0, 2)) == 0:
            a = multiset(a, b)
        sizes = draw(st.sampled_from([[2, 2], [3, 2], [3, 3], [4, 3], None]))
        case = {'fam': fam, 'impl': impl, 'ktype': ktype, 'sizes': sizes,
                'a': {'kind': ak, 'keys': a}, 'b': {'kind': bk, 'keys': b}}
        if draw(st.integers(0, 3)) == 0:
            case['ghost'] = True        # BTrees operands are stored in a mini-ZODB connection and evicted before every call
        return case

    return case()


def _universe(fam, u):
    """u key tokens of the family, ascending, spread over the domain: the smallest (None for object keys, the
    type's minimum otherwise), neighbours in the dense middle, the largest"""
    dom = F.domain(fam, 'int')
    mid = len(dom) // 2
    picks = [dom[0]] + dom[mid:mid + u - 2] + [dom[-1]]
    return picks[:u]


def enum_cases(spec):
    """Bounded-exhaustive operand pairs over a u-key universe U (node sizes 2/2, so 3 keys are already two leaves):
    (i) every pair of subsets of U x every pair of BTrees kinds; (ii) every BTrees kind holding a subset of U[:-1]
    x EVERY sequence over U of length <= seqlen (all orders, all repetitions) as list and as generator, on either
    side.  Each pair is then put through every applicable entry point by run_case."""
    import itertools
    fam, impl, u, seqlen = spec['fam'], spec['impl'], spec['u'], spec['seqlen']
    U = _universe(fam, u)
    subsets = [[U[i] for i in range(u) if m >> i & 1] for m in range(1 << u)]
    base = {'fam': fam, 'impl': impl, 'ktype': 'int', 'sizes': [2, 2]}
    for a in subsets:
        for b in subsets:
            for ak in BT:
                for bk in BT:
                    c = dict(base, a={'kind': ak, 'keys': a}, b={'kind': bk, 'keys': b})
                    if (len(a) + 2 * len(b) + BT.index(ak) + BT.index(bk)) % 3 == 0:
                        c['ghost'] = True
                    yield c
    small = [s for s in subsets if U[-1] not in s]
    seqs = [list(t) for n in range(seqlen + 1) for t in itertools.product(U, repeat=n)]
    for a in small:
        for ak in BT:
            for q in seqs:
                for pk in ('list', 'gen'):
                    yield dict(base, a={'kind': ak, 'keys': a}, b={'kind': pk, 'keys': q})
                if ak in ('Set', 'BTree'):
                    yield dict(base, a={'kind': 'list', 'keys': q}, b={'kind': ak, 'keys': a})


def run_shard(shard, ctx):
    if not ctx.hyp(_cases(shard), run_case, shard['n'], 'pairs'):
        return
    for spec in shard.get('enum', ()):
        n = 0
        for case in enum_cases(spec):
            n += 1
            if not ctx.run_case(case, run_case):
                return
        ctx.count('enumerated_pairs', n)
        ctx.count('enumerated_slice:%s:%s:u%d' % (spec['fam'], spec['impl'], spec['u']))


def replay(case, ctx):
    run_case(case, ctx)


def _vtok(fam, i):
    v = fam[1]
    if v == 'O':
        return ['v', i]
    if v == 'F':
        return float(i % 9) / 2
    return i % 7 + 1


def build(fam, impl, spec):
    kind = spec['kind']
    keys = [F.dk(fam, k) for k in spec['keys']]
    if kind == 'none':
        return None, None
    if kind == 'list':
        return list(keys), None
    if kind == 'tuple':
        return tuple(keys), None
    if kind == 'gen':
        return (k for k in keys), None
    if kind == 'pyset':
        return set(keys), None
    if kind == 'keysview':
        # the lazy keys() sequence of a tree as a plain iterable operand
        c = F.cls(fam, 'TreeSet', impl)(keys)
        return c.keys(), None
    if kind == 'valuesview':
        # the lazy values() sequence of a mapping tree whose values are keys of the family: an iterable that is
        # neither sorted nor free of repetitions
        if fam[0] != fam[1]:
            return list(keys), None
        c = F.cls(fam, 'BTree', impl)()
        for i, k in enumerate(keys):
            c[1000 + i] = k         # one entry per element (II, LL, UU, QQ, OO: any small int is a key)
        return c.values(), None
    c = F.cls(fam, kind, impl)()
    vals = {}
    for i, k in enumerate(keys):
        if F.is_map(kind):
            v = F.dv(fam, _vtok(fam, i))
            c[k] = v
            vals[k] = v
        else:
            c.add(k)
    return c, vals


def _evict(objs):
    """store the operands in one mini-ZODB connection and sweep its cache: the call starts on ghosts.  Returns the
    connection (to be kept alive), or None when a tree has the shape of open finding F16 (it would not survive the
    commit, set operation or not)"""
    from vlib import minizodb as Z
    from vlib import walker
    for o in objs:
        if hasattr(o, '_firstbucket'):
            if walker.f16_pending(walker.walk(o, hasattr(o, 'items'), check=False)):
                return None
    if not objs:
        return None
    c = Z.Connection(Z.Storage())
    for o in objs:
        c.add(o)
    c.commit()
    c.minimize()
    return c


def _listing(x):
    if x is None:
        return None
    if hasattr(x, 'items') and not isinstance(x, (set, frozenset)):
        return list(x.items())
    return list(x)


def run_case(case, ctx):
    fam, impl = case['fam'], case['impl']
    A, B = case['a'], case['b']
    ak, bk = A['kind'], B['kind']
    keysA = [F.dk(fam, k) for k in A['keys']]
    keysB = [F.dk(fam, k) for k in B['keys']]
    sa, sb = set(keysA), set(keysB)
    feats = {
        'impl': impl, 'a_kind': ak, 'b_kind': bk,
        'dup': (ak in PLAIN and len(keysA) != len(sa)) or (bk in PLAIN and len(keysB) != len(sb)),
        'view': ak.endswith('view') or bk.endswith('view'),
        'none_in_plain': (ak in PLAIN and None in sa and len(sa) > 1) or (bk in PLAIN and None in sb and len(sb) > 1),
    }
    set_cls = F.cls(fam, 'Set', impl)
    bucket_cls = F.cls(fam, 'Bucket', impl)
    n_eval = 0
    classes = {}
    nodes = []
    for k in ('TreeSet', 'BTree'):
        nodes.append(F.NodeSizes(F.cls(fam, k, impl), tuple(case['sizes']) if case.get('sizes') else None))
    for ns in nodes:
        ns.__enter__()
    try:
        ops = []
        # module functions
        for name in ('union', 'intersection', 'difference'):
            if name == 'difference' and ak not in BT and ak != 'none':
                continue
            ops.append(('fn', name))
        # operators: left operand must be a BTrees object (or, for | and &, the right one)
        for name in ('or', 'and', 'sub'):
            if ak in BT and bk != 'none':
                ops.append(('op', name))
            elif bk in BT and ak in PLAIN and name != 'sub' and ak != 'pyset':
                ops.append(('rop', name))
        if ak in ('Set', 'TreeSet') and bk != 'none':
            ops.append(('op', 'xor'))
            for name in ('ior', 'iand', 'isub', 'ixor'):
                ops.append(('iop', name))
        for how, name in ops:
            a, avals = build(fam, impl, A)
            b, bvals = build(fam, impl, B)
            a0, b0 = (_listing(a) if ak != 'gen' else None), (_listing(b) if bk != 'gen' else None)
            conn = _evict([x for x, k in ((a, ak), (b, bk)) if k in BT]) if case.get('ghost') else None
            if conn is not None:
                classes['evicted_operands'] = classes.get('evicted_operands', 0) + 1
            sig = dict(feats, fn=name, how=how)
            desc = '%s %s on %s(%s) %s %r and %s %r' % (how, name, fam, impl, ak, A['keys'], bk, B['keys'])
            m = F.module(fam)
            try:
                if how == 'fn':
                    f = F.fn(fam, name, impl)
                    r = f(a, b)
                elif how == 'op':
                    r = {'or': lambda: a | b, 'and': lambda: a & b, 'sub': lambda: a - b, 'xor': lambda: a ^ b}[name]()
                elif how == 'rop':
                    r = {'or': lambda: a | b, 'and': lambda: a & b}[name]()
                else:
                    r = {'ior': a.__ior__, 'iand': a.__iand__, 'isub': a.__isub__, 'ixor': a.__ixor__}[name](b)
            except Exception as e:
                n_eval += 1
                ctx.mismatch('%s raised %s: %s' % (desc, type(e).__name__, e),
                             dict(sig, what='raised:' + type(e).__name__))
                continue
            n_eval += 1
            base = {'union': sa | sb, 'or': sa | sb, 'ior': sa | sb,
                    'intersection': sa & sb, 'and': sa & sb, 'iand': sa & sb,
                    'difference': sa - sb, 'sub': sa - sb, 'isub': sa - sb,
                    'xor': sa ^ sb, 'ixor': sa ^ sb}[name]
            # None operands
            if how == 'fn' and (a is None or b is None):
                if name == 'difference':
                    want_obj = a if b is None or a is None else None
                    want_obj = None if a is None else a
                else:
                    want_obj = b if a is None else a
                if r is not want_obj:
                    ctx.mismatch('%s: a None operand must return the other operand itself (difference: '
                                 'the first), got %r' % (desc, r), dict(sig, what='none-operand'))
                classes['none_operand'] = classes.get('none_operand', 0) + 1
                continue
            want_keys = sorted(base, key=F.sortkey)
            mapping_result = name in ('difference', 'sub') and ak in ('Bucket', 'BTree')
            if how == 'iop':
                if r is not a:
                    ctx.mismatch('%s: the in-place operator returned a different object' % desc,
                                 dict(sig, what='inplace-identity'))
                got = list(a)
                if got != want_keys:
                    ctx.mismatch('%s: target holds %r, expected %r' % (desc, got, want_keys),
                                 dict(sig, what='contents'))
            else:
                if mapping_result:
                    got = list(r.items())
                    want = [(k, avals[k]) for k in want_keys]
                    if type(r) is not bucket_cls:
                        ctx.mismatch('%s: result is %s, documented: Bucket' % (desc, type(r).__name__),
                                     dict(sig, what='result-kind'))
                else:
                    got = list(r)
                    want = want_keys
                    # '^' has no documented result kind: a set of the family (Set, or the left
                    # operand's own kind)
                    ok_kinds = (set_cls,) if name != 'xor' else (set_cls, type(a))
                    if type(r) not in ok_kinds:
                        ctx.mismatch('%s: result is %s, documented: Set' % (desc, type(r).__name__),
                                     dict(sig, what='result-kind'))
                if got != want:
                    gk = [g[0] for g in got] if mapping_result else got
                    kind_of_error = 'duplicates' if len(gk) != len(set(gk)) and sorted(set(gk), key=F.sortkey) == want_keys \
                        else ('unsorted' if sorted(gk, key=F.sortkey) != gk else 'wrong')
                    ctx.mismatch('%s: result %r, expected %r' % (desc, got, want),
                                 dict(sig, what='contents', err=kind_of_error))
                if r is a or r is b:
                    ctx.mismatch('%s: the result is one of the operands, not a new object' % desc,
                                 dict(sig, what='not-new'))
                # the result behaves as a normal container
                if not mapping_result and got == want:
                    for k in want_keys[:3]:
                        if k not in r:
                            ctx.mismatch('%s: key %r listed but not found in the result' % (desc, k),
                                         dict(sig, what='result-lookup'))
                    if len(r) != len(want_keys):
                        ctx.mismatch('%s: len(result) %d' % (desc, len(r)), dict(sig, what='result-len'))
            # operands that are not the in-place target are never modified
            if bk != 'gen' and _listing(b) != b0:
                ctx.mismatch('%s: the second operand was modified: %r -> %r' % (desc, b0, _listing(b)),
                             dict(sig, what='operand-modified'))
            if how != 'iop' and ak != 'gen' and _listing(a) != a0:
                ctx.mismatch('%s: the first operand was modified: %r -> %r' % (desc, a0, _listing(a)),
                             dict(sig, what='operand-modified'))
            key = '%s:%s' % (how, name)
            classes[key] = classes.get(key, 0) + 1
    finally:
        for ns in nodes:
            ns.__exit__(None, None, None)
    common, distinct = bool(sa & sb), bool(sa ^ sb)
    plain_messy = feats['dup'] or any(k in ('list', 'tuple', 'gen') and ks != sorted(ks, key=F.sortkey)
                                      for k, ks in ((ak, keysA), (bk, keysB)))
    nontriv = (bool(sa) and bool(sb) and common and distinct) or plain_messy
    classes['pair:%s/%s' % ('bt' if ak in BT else ak, 'bt' if bk in BT else bk)] = 1
    ctx.ok_bulk(max(n_eval - 1, 0), n_eval if nontriv else 0, classes,
                sample=dict(case, operations=n_eval) if nontriv else None)
    return False, ()
