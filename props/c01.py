"""C01 - containers behave as a sorted map / sorted set."""
from vlib import families as F
from vlib import histories as H
from vlib.runner import Violation

ID = 'C01'
LEVEL = 'exploration'
TECHNIQUE = ('model-based stateful testing: Hypothesis-generated call histories (valid by '
             'construction, fill-then-thin prefixes, tiny node sizes) executed against a reference '
             'sorted map/set; every return value, exception class and the full ordered contents '
             'compared after every call')
RULE = ('a case is a configuration (family, kind, implementation, node sizes set on the class or a '
        'subclass, key type) plus a history of public calls.  Non-trivial: tree kinds - the tree '
        'reached >= 2 leaves and at least one successful removal happened; leaf kinds - >= 3 '
        'entries were stored at some point and a removal happened.  Distinct = distinct case JSON.')
ASSUMPTIONS = ['reference model: dict + sorted() with None as smallest key',
               'object keys of one totally ordered type per case (mixed-type ordering is out of contract)',
               'popitem()/Set.pop() are checked with a validity predicate ("some entry")',
               'truth value only for insert()/add()/has_key(); update() return value ignored']


def shards(tier, seed):
    n = {'quick': 1000, 'thorough': 12000}[tier]
    max_ops = {'quick': 50, 'thorough': 250}[tier]
    out = []
    for i in range(16):
        # every shard covers every family group over time; families rotate with the seed
        fams = F.rotate(F.FAMILIES, seed * 7 + i * 3, 6 if tier == 'quick' else 22)
        out.append({'fams': fams, 'n': n, 'max_ops': max_ops})
    if tier == 'thorough':
        for fam in ('OO', 'II', 'fs'):
            for impl in ('c', 'py'):
                out.append({'big': True, 'fam': fam, 'impl': impl, 'n': 3})
    return out


def run_shard(shard, ctx):
    if shard.get('big'):
        return _big(shard, ctx)
    strat = H.cases(F.configs(fams=shard['fams']), max_ops=shard['max_ops'])
    ctx.hyp(strat, run_case, shard['n'], 'hist')


def replay(case, ctx):
    if case.get('big'):
        return _big_case(case, ctx)
    run_case(case, ctx)


def run_case(case, ctx):
    cfg = case['cfg']
    with H.Live(cfg) as lv:
        had3 = False
        removed = 0
        opcount = {}
        for i, op in enumerate(case['ops']):
            before = len(lv.model)
            got, want, mode = lv.step(op)
            opcount[op[0]] = opcount.get(op[0], 0) + 1
            if not H.same(got, want, mode):
                ctx.mismatch('step %d %r on %s%s(%s): got %s, reference model says %s'
                             % (i, op, lv.fam, lv.kind, lv.impl, H.fmt(got), H.fmt(want)),
                             dict(H.arg_features(lv, op), impl=lv.impl, kind=lv.kind, op=op[0],
                                  got=H.fmt(got), want=H.fmt(want)), recoverable=False)
            if len(lv.model) < before:
                removed += 1
            if len(lv.model) >= 3:
                had3 = True
            c = lv.contents()
            mc = lv.model_contents()
            if c != mc or not H._types_ok(c, mc):
                ctx.mismatch('after step %d %r on %s%s(%s): contents %r, reference model %r'
                             % (i, op, lv.fam, lv.kind, lv.impl, c, mc),
                             dict(H.arg_features(lv, op), impl=lv.impl, kind=lv.kind, op=op[0],
                                  what='contents'), recoverable=False)
            if len(lv.t) != len(mc):
                raise Violation('after step %d %r: len() = %d, model %d' % (i, op, len(lv.t), len(mc)),
                                {'impl': lv.impl, 'kind': lv.kind, 'op': op[0], 'what': 'len'})
            if lv.is_tree and bool(lv.t) != bool(mc):
                raise Violation('after step %d %r: bool() = %r, model %r' % (i, op, bool(lv.t), bool(mc)),
                                {'impl': lv.impl, 'kind': lv.kind, 'op': op[0], 'what': 'bool'})
            if op[0] in H.MUTATORS:
                lv.observe_shape()
        classes = ['kind:' + lv.kind, 'impl:' + lv.impl, 'fam:' + lv.fam,
                   'sizes:%s' % (lv.sizes,), 'mode:' + lv.mode]
        if lv.is_tree:
            classes.append('height:%d' % min(lv.max_height, 4))
            classes.extend(sorted(lv.events))
            nontrivial = lv.max_leaves >= 2 and removed >= 1
        else:
            nontrivial = had3 and removed >= 1
        if any(k is None for k in lv.model) or any(isinstance(o, list) and len(o) > 1 and o[1] is None
                                                   for o in case['ops']):
            classes.append('none_key')
        classes.extend('op:' + o for o in opcount)
        return nontrivial, classes


# ---- default node sizes, thousands of keys (2 and 3 levels at production sizes)

def _big(shard, ctx):
    for j in range(shard['n']):
        case = {'big': True, 'fam': shard['fam'], 'impl': shard['impl'],
                'n': [2000, 6000, 10000][j % 3], 'mul': [1, 7, 13][j % 3] + 2 * ctx.seed,
                'kind': ['BTree', 'TreeSet'][j % 2]}
        ctx.run_case(case, _big_case)


def _big_case(case, ctx):
    fam, impl, n, mul, kind = case['fam'], case['impl'], case['n'], case['mul'], case['kind']
    t = F.cls(fam, kind, impl)()
    is_map = kind == 'BTree'
    model = {}
    mod = 65536 if fam[0] == 'f' else 1000003

    def key(i):
        x = (i * (2 * mul + 1) * 7919) % mod
        if fam[0] == 'f':
            return x.to_bytes(2, 'big')
        if fam == 'OO':
            return 'k%07d' % x
        return x

    def val(i):
        return F.dv(fam, i % 1000) if fam[1] != 'O' else i

    for i in range(n):
        k = key(i)
        if is_map:
            t[k] = val(i)
            model[k] = val(i)
        else:
            t.add(k)
            model[k] = None
    for i in range(0, n, 3):
        k = key(i)
        if k in model:
            if is_map:
                del t[k]
            else:
                t.remove(k)
            del model[k]
    ks = sorted(model)
    got = list(t.items()) if is_map else list(t)
    want = [(k, model[k]) for k in ks] if is_map else ks
    if got != want or len(t) != len(ks):
        raise Violation('default-size %s%s(%s) with %d keys disagrees with the model' % (fam, kind, impl, n),
                        {'impl': impl, 'kind': kind, 'op': 'big'})
    t._check()
    return True, ('big', 'big:%s' % fam)
