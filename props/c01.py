"""C01 - containers behave as a sorted map / sorted set."""
from vlib import families as F
from vlib import histories as H
from vlib.runner import Violation

ID = 'C01'
LEVEL = 'exploration'
TECHNIQUE = ('model-based stateful testing: Hypothesis-generated call histories (valid by '
             'construction, fill-then-thin prefixes, tiny node sizes) executed against a reference '
             'sorted map/set; every return value, exception class and the full ordered contents '
             'compared after every call; plus small-scope exhaustive histories per (family, kind, implementation) '
             'slice: every single-key operation x every key on every subset of a 5-key universe, every bulk operation '
             'x every operand sequence of length <= 3 (all orders and repetitions) on every subset of 3 keys')
RULE = ('a case is a configuration (family, kind, implementation, node sizes set on the class or a '
        'subclass, key type) plus a history of public calls.  Non-trivial: tree kinds - the tree '
        'reached >= 2 leaves and at least one successful removal happened; leaf kinds - >= 3 '
        'entries were stored at some point and a removal happened.  Distinct = distinct case JSON.')
ASSUMPTIONS = ['reference model: dict + sorted() with None as smallest key',
               'object keys of one totally ordered type per case (mixed-type ordering is out of contract)',
               'popitem()/Set.pop() are checked with a validity predicate ("some entry")',
               'truth value only for insert()/add()/has_key(); update() return value ignored']


def shards(tier, seed):
    n = {'quick': 1000, 'thorough': 12000}[tier]
    max_ops = {'quick': 50, 'thorough': 250}[tier]
    out = []
    for i in range(16):
        # every shard covers every family group over time; families rotate with the seed
        fams = F.rotate(F.FAMILIES, seed * 7 + i * 3, 6 if tier == 'quick' else 22)
        out.append({'fams': fams, 'n': n, 'max_ops': max_ops})
    # bounded-exhaustive part: (family, kind, implementation) slices in which every operation is applied to every
    # small state (see enum_histories); quick: 2 slices per shard rotating with the seed, thorough: all 176
    order = [F.FAMILIES[(seed * 5 + j * 6 + j // 11) % 22] for j in range(22)]       # spread over the key types
    order += [f for f in F.FAMILIES if f not in order]
    seen = set()
    order = [f for f in order if not (f in seen or seen.add(f))]
    slices = [(f, k, i) for f in order for k in F.KINDS for i in F.IMPLS]
    for i, sh in enumerate(out):
        mine = slices[i::16] if tier == 'thorough' else slices[2 * i:2 * i + 2]
        sh['enum'] = [{'fam': f, 'kind': k, 'impl': im} for f, k, im in mine]
    if tier == 'thorough':
        for fam in ('OO', 'II', 'fs'):
            for impl in ('c', 'py'):
                out.append({'big': True, 'fam': fam, 'impl': impl, 'n': 3})
    return out


def run_shard(shard, ctx):
    if shard.get('big'):
        return _big(shard, ctx)
    strat = H.cases(F.configs(fams=shard['fams']), max_ops=shard['max_ops'])
    if not ctx.hyp(strat, run_case, shard['n'], 'hist'):
        return
    for spec in shard.get('enum', ()):
        n = 0
        for case in enum_histories(spec):
            n += 1
            if not ctx.run_case(case, run_case):
                return
        ctx.count('enumerated_histories', n)
        ctx.count('enumerated_slice:%s%s:%s' % (spec['fam'], spec['kind'], spec['impl']))


def enum_histories(spec):
    """Small-scope exhaustive histories for one (family, kind, implementation): node sizes 2/2 (three keys are two
    leaves, five keys three levels).  (i) every state = subset of a 5-key universe U5 (smallest key of the family /
    None, three neighbours, the largest key) x every single-key operation x every key of U5 + one stranger, plus
    popitem / pop / clear / the read-only calls; (ii) every state = subset of U5[:3] x every bulk operation (update,
    |=, &=, -=, ^=, isdisjoint) x EVERY sequence of length <= 3 over U5[:4] (all orders, all repetitions) as list and
    as generator (mappings: update with every pair sequence of length <= 2 over 3 keys x 2 values), and the target
    itself as operand."""
    import itertools
    fam, kind, impl = spec['fam'], spec['kind'], spec['impl']
    dom = F.domain(fam, 'int')
    mid = len(dom) // 2
    U = [dom[0]] + dom[mid:mid + 3] + [dom[-1]]
    stranger = dom[mid + 3]
    is_map = F.is_map(kind)
    cfg = {'fam': fam, 'kind': kind, 'impl': impl, 'ktype': 'int'}
    if F.is_tree(kind):
        cfg['sizes'] = [2, 2]
        cfg['mode'] = 'class'
    vt = {'O': ['v', 'w'], 'F': [0.5, 2.0], 's': [1, 2]}.get(fam[1], [1, 2])

    def fill(sub):
        return [(['set', k, vt[0]] if is_map else ['add', k]) for k in sub]
    subsets5 = [[U[i] for i in range(5) if msk >> i & 1] for msk in range(32)]
    reads = [['len'], ['bool'], ['list'], ['keys']] + ([['values'], ['items']] if is_map else [])
    for sub in subsets5:
        pre = fill(sub)
        for k in U + [stranger]:
            if is_map:
                singles = [['set', k, vt[1]], ['del', k], ['setdefault', k, vt[1]], ['pop', k], ['popd', k, vt[1]],
                           ['get', k], ['getd', k, vt[1]], ['getitem', k], ['in', k], ['has_key', k]]
                if kind == 'BTree':
                    singles.append(['insert', k, vt[1]])
            else:
                singles = [['add', k], ['remove', k], ['discard', k], ['in', k], ['has_key', k]]
                if kind == 'TreeSet':
                    singles.append(['insert', k])
            for op in singles:
                yield {'cfg': cfg, 'ops': pre + [op] + reads[2:3]}
        for op in ([['popitem']] if is_map else [['pop']]) + [['clear']]:
            yield {'cfg': cfg, 'ops': pre + [op, op] + reads}
        # writes with a key / value the family cannot represent, through every writing entry point, on every state
        # (the empty one included: the provisional first leaf must be rolled back)
        hows = (['set', 'setdefault', 'update'] + (['insert'] if kind == 'BTree' else [])) if is_map else \
            (['add', 'update'] + (['insert'] if kind == 'TreeSet' else []))
        for role in (('key', 'value') if is_map else ('key',)):
            for how in hows:
                for zi in range(9):
                    yield {'cfg': cfg, 'ops': pre + [['bad', role, how, zi, stranger, vt[1] if is_map else None]] + reads}
    subsets3 = [[U[i] for i in range(3) if msk >> i & 1] for msk in range(8)]
    if is_map:
        pairs = [[k, v] for k in U[:3] for v in vt]
        seqs = [list(t) for n in range(3) for t in itertools.product(pairs, repeat=n)]
        for sub in subsets3:
            for q in seqs:
                for form in ('pairs', 'dict', 'Bucket', 'BTree'):
                    if form != 'pairs' and len(set(repr(p[0]) for p in q)) != len(q):
                        continue        # a dict / container cannot hold a key twice
                    yield {'cfg': cfg, 'ops': fill(sub) + [['update', q, form], ['items']]}
    else:
        seqs = [list(t) for n in range(4) for t in itertools.product(U[:4], repeat=n)]
        for sub in subsets3:
            for q in seqs:
                for name in ('update', 'ior', 'iand', 'isub', 'ixor', 'isdisjoint'):
                    for form in ('list', 'gen'):
                        yield {'cfg': cfg, 'ops': fill(sub) + [[name, q, form], ['list']]}
            for name in ('iand', 'isub', 'ixor'):
                yield {'cfg': cfg, 'ops': fill(sub) + [[name, [], 'self'], ['list']]}


def replay(case, ctx):
    if case.get('big'):
        return _big_case(case, ctx)
    run_case(case, ctx)


def run_case(case, ctx):
    cfg = case['cfg']
    with H.Live(cfg) as lv:
        had3 = False
        removed = 0
        opcount = {}
        for i, op in enumerate(case['ops']):
            before = len(lv.model)
            got, want, mode = lv.step(op)
            opcount[op[0]] = opcount.get(op[0], 0) + 1
            if not H.same(got, want, mode):
                ctx.mismatch('step %d %r on %s%s(%s): got %s, reference model says %s'
                             % (i, op, lv.fam, lv.kind, lv.impl, H.fmt(got), H.fmt(want)),
                             dict(H.arg_features(lv, op), impl=lv.impl, kind=lv.kind, op=op[0],
                                  got=H.fmt(got), want=H.fmt(want)), recoverable=False)
            if len(lv.model) < before:
                removed += 1
            if len(lv.model) >= 3:
                had3 = True
            c = lv.contents()
            mc = lv.model_contents()
            if c != mc or not H._types_ok(c, mc):
                ctx.mismatch('after step %d %r on %s%s(%s): contents %r, reference model %r'
                             % (i, op, lv.fam, lv.kind, lv.impl, c, mc),
                             dict(H.arg_features(lv, op), impl=lv.impl, kind=lv.kind, op=op[0],
                                  what='contents'), recoverable=False)
            if len(lv.t) != len(mc):
                raise Violation('after step %d %r: len() = %d, model %d' % (i, op, len(lv.t), len(mc)),
                                {'impl': lv.impl, 'kind': lv.kind, 'op': op[0], 'what': 'len'})
            if lv.is_tree and bool(lv.t) != bool(mc):
                raise Violation('after step %d %r: bool() = %r, model %r' % (i, op, bool(lv.t), bool(mc)),
                                {'impl': lv.impl, 'kind': lv.kind, 'op': op[0], 'what': 'bool'})
            if op[0] in H.MUTATORS:
                lv.observe_shape()
        classes = ['kind:' + lv.kind, 'impl:' + lv.impl, 'fam:' + lv.fam,
                   'sizes:%s' % (lv.sizes,), 'mode:' + lv.mode]
        if lv.is_tree:
            classes.append('height:%d' % min(lv.max_height, 4))
            classes.extend(sorted(lv.events))
            nontrivial = lv.max_leaves >= 2 and removed >= 1
        else:
            nontrivial = had3 and removed >= 1
        if any(k is None for k in lv.model) or any(isinstance(o, list) and len(o) > 1 and o[1] is None
                                                   for o in case['ops']):
            classes.append('none_key')
        classes.extend('op:' + o for o in opcount)
        return nontrivial, classes


# ---- default node sizes, thousands of keys (2 and 3 levels at production sizes)

def _big(shard, ctx):
    for j in range(shard['n']):
        case = {'big': True, 'fam': shard['fam'], 'impl': shard['impl'],
                'n': [2000, 6000, 10000][j % 3], 'mul': [1, 7, 13][j % 3] + 2 * ctx.seed,
                'kind': ['BTree', 'TreeSet'][j % 2]}
        ctx.run_case(case, _big_case)


def _big_case(case, ctx):
    fam, impl, n, mul, kind = case['fam'], case['impl'], case['n'], case['mul'], case['kind']
    t = F.cls(fam, kind, impl)()
    is_map = kind == 'BTree'
    model = {}
    mod = 65536 if fam[0] == 'f' else 1000003

    def key(i):
        x = (i * (2 * mul + 1) * 7919) % mod
        if fam[0] == 'f':
            return x.to_bytes(2, 'big')
        if fam == 'OO':
            return 'k%07d' % x
        return x

    def val(i):
        return F.dv(fam, i % 1000) if fam[1] != 'O' else i

    for i in range(n):
        k = key(i)
        if is_map:
            t[k] = val(i)
            model[k] = val(i)
        else:
            t.add(k)
            model[k] = None
    for i in range(0, n, 3):
        k = key(i)
        if k in model:
            if is_map:
                del t[k]
            else:
                t.remove(k)
            del model[k]
    ks = sorted(model)
    got = list(t.items()) if is_map else list(t)
    want = [(k, model[k]) for k in ks] if is_map else ks
    if got != want or len(t) != len(ks):
        raise Violation('default-size %s%s(%s) with %d keys disagrees with the model' % (fam, kind, impl, n),
                        {'impl': impl, 'kind': kind, 'op': 'big'})
    t._check()
    return True, ('big', 'big:%s' % fam)
