"""C13 - only representable keys and values are stored, and they read back exactly."""
import math
import struct
from decimal import Decimal
from fractions import Fraction

from vlib import families as F
from vlib.runner import Violation

ID = 'C13'
LEVEL = 'exploration'
TECHNIQUE = ('bounded-exhaustive enumeration: every family x kind x implementation x writing entry point '
             '(item assignment, insert, setdefault, update, constructor, add, __setstate__) x a type zoo '
             '(every integer around +-2^31, 2^32, +-2^63, 2^64, huge ints, bools, floats incl. inf/nan/'
             'subnormal/just-out-of-float32-range, str, bytes of length 0..8, None, tuples, Decimal, '
             'Fraction, default-comparison objects) offered as key and as value to an empty, a one-leaf '
             'and a three-level container; an independent classifier says whether the datum is '
             'representable; plus lookups of every zoo item; '
             'stored data are read back by look-up AND through enumeration (listing, order, minKey / maxKey)')
RULE = ('a point is (family, kind, implementation, container state, entry point, role, zoo item).  '
        'Non-trivial: a boundary value (+-1 of a type limit) or a non-int type offered to a multi-leaf '
        'container.  Points are distinct by construction.')
ASSUMPTIONS = ['classifier: int (incl. bool) within the declared range; float32: int/float whose single-'
               'precision rounding is finite, or inf/nan; bytes of the exact length; object keys: None or '
               'any object without default comparison; object values: anything',
               'objects implementing __index__ are not offered (C demands int, Python accepts __index__)',
               'object-key families: on non-empty containers only zoo items comparable with the stored '
               'int keys are offered (mixed-type ordering is out of contract)']
EXHAUSTIVE = {'quick': True, 'thorough': True}
EXHAUSTIVE_SPACE = ('type zoo x entry points x container states x kinds x implementations for the families '
                    'of the run (quick: 6 seed-rotated families; thorough: all 22)')

FLT_MAX = 3.4028234663852886e+38
ABOVE_FLT_MAX = 3.4028235677973366e+38     # rounds (ties-to-even) to 2**128 = inf in single precision


class DefaultCmp(object):
    """an object with default comparison: not orderable"""

    def __repr__(self):
        return 'DefaultCmp()'


def zoo():
    z = []
    for p in (31, 32, 63, 64):
        for s in (1, -1):
            for d in (-2, -1, 0, 1):
                z.append(s * 2 ** p + d)
    z += [0, 1, -1, 2, 7, 2 ** 200, -2 ** 200, 2 ** 15, 2 ** 16, 2 ** 48]
    z += [True, False]
    z += [3.0, 3.5, -0.0, 0.1, 1e40, -1e40, float('inf'), float('-inf'), float('nan'), 5e-324, FLT_MAX,
          -FLT_MAX, ABOVE_FLT_MAX, 1e-46, 2.0 ** -149, 16777217.0]
    z += ['', 'a', 'ab', 'abcdef', u'\xe9']
    z += [b'x' * n for n in range(0, 9)] + [b'\x00\x00', b'\xff\xff', b'\x00' * 6, b'\xff' * 6]
    z += [None, (), (1, 2), [1], DefaultCmp(), Decimal('1.5'), Fraction(1, 2), object]
    return z


ZOO = zoo()


def f32(x):
    return struct.unpack('f', struct.pack('f', x))[0]


def classify(code, x, role):
    """-> (representable, expected read-back value)"""
    if code in F.BOUNDS:
        lo, hi = F.BOUNDS[code]
        if isinstance(x, int) and lo <= x <= hi:
            return True, int(x)
        return False, None
    if code == 'F':
        if isinstance(x, bool) or isinstance(x, int):
            try:
                x = float(x)
            except OverflowError:
                return False, None
        if isinstance(x, (Decimal, Fraction)):
            # numerically fine; Python converts with float(), C insists on int/float: either
            # outcome is acceptable here (the difference is C09's subject)
            return 'either', f32(float(x))
        if not isinstance(x, float):
            return False, None
        if math.isnan(x) or math.isinf(x):
            return True, x
        try:
            r = f32(x)
        except OverflowError:
            return False, None
        if math.isinf(r):
            return False, None
        return True, r
    if code == 'f':
        return (isinstance(x, bytes) and len(x) == 2), x
    if code == 's':
        return (isinstance(x, bytes) and len(x) == 6), x
    if code == 'O' and role == 'key':
        if x is None:
            return True, x
        t = type(x)
        lt = getattr(t, '__lt__', None)
        default = getattr(lt, '__objclass__', None) is object
        if isinstance(x, float) and math.isnan(x):
            return None, None       # not offered
        return (not default), x
    return True, x


def same_value(a, b):
    if isinstance(a, float) and isinstance(b, float) and math.isnan(a) and math.isnan(b):
        return True
    return a == b and (isinstance(a, bool) == isinstance(b, bool) or True)


def shards(tier, seed):
    fams = F.rotate(F.FAMILIES, seed * 5, 6) if tier == 'quick' else list(F.FAMILIES)
    # one family of every key and value macro variant is always present
    if tier == 'quick':
        for must in ('IF', 'fs', 'OO', 'UU', 'LQ', 'QO'):
            if must[0] not in [f[0] for f in fams] or must[1] not in [f[1] for f in fams]:
                fams.append(must)
    out = []
    for fam in fams:
        for impl in ('c', 'py'):
            out.append({'fam': fam, 'impl': impl, 'tier': tier})
    return out


STATES = ('empty', 'leaf', 'deep')


def base_keys(fam, state):
    k = fam[0]
    if state == 'empty':
        return []
    n = 3 if state == 'leaf' else 12
    if k == 'f':
        return [struct.pack('>H', 10 + 3 * i) for i in range(n)]
    return [10 + 3 * i for i in range(n)]


def good_key(fam):
    return b'\x00\x07' if fam[0] == 'f' else 7


def good_value(fam):
    v = fam[1]
    return {'F': 1.5, 's': b'abcdef', 'O': 'val'}.get(v, 5)


def make(fam, kind, impl, state):
    klass = F.cls(fam, kind, impl)
    t = klass()
    gv = good_value(fam)
    for k in base_keys(fam, state):
        if F.is_map(kind):
            t[k] = gv
        else:
            t.add(k)
    return t


def listing(t, is_map):
    return list(t.items()) if is_map else list(t)


def comparable_with_ints(x):
    return x is None or isinstance(x, (int, float, Fraction, Decimal, DefaultCmp)) and not (
        isinstance(x, float) and math.isnan(x))


def run_shard(shard, ctx):
    fam, impl = shard['fam'], shard['impl']
    n_eval = n_nt = 0
    classes = {}
    sample = None
    for kind in F.KINDS:
        is_map, is_tree = F.is_map(kind), F.is_tree(kind)
        klass = F.cls(fam, kind, impl)
        sizes = (3, 3) if is_tree else None
        with F.NodeSizes(klass, sizes):
            entries = (['setitem', 'setdefault', 'update', 'ctor', 'setstate', 'update:dict', 'update:OOBTree',
                        'update:OOBucket', 'ctor:OOBTree'] + (['insert'] if kind == 'BTree' else [])) \
                if is_map else ['add', 'insert', 'update', 'ctor', 'setstate', 'ior', 'update:OOSet',
                                'update:OOTreeSet', 'ctor:OOTreeSet']
            roles = ['key', 'value'] if is_map else ['key']
            for state in STATES:
                if (state == 'deep' and not is_tree):
                    continue
                if shard.get('tier') == 'quick' and state == 'leaf' and is_tree:
                    continue        # quick tier: trees are probed empty and three-level only
                for entry in entries:
                    if entry.split(':')[0] in ('ctor', 'setstate') and state != 'empty':
                        continue
                    for role in roles:
                        code = fam[0] if role == 'key' else fam[1]
                        for zi, x in enumerate(ZOO):
                            rep, expect = classify(code, x, role)
                            if rep is None:
                                continue
                            if role == 'key' and fam[0] == 'O' and state != 'empty' and not comparable_with_ints(x):
                                continue
                            case = {'fam': fam, 'impl': impl, 'kind': kind, 'state': state, 'entry': entry,
                                    'role': role, 'zoo': zi, 'repr': repr(x)[:40]}
                            ctx.begin(case)
                            try:
                                _point(ctx, case, fam, impl, kind, state, entry, role, x, rep, expect, classes)
                            except Violation as v:
                                ctx.violation = {'case': case, 'msg': v.msg, 'sig': v.sig}
                                return
                            n_eval += 1
                            boundary = isinstance(x, int) and not isinstance(x, bool) and any(
                                abs(abs(x) - 2 ** p) <= 2 for p in (31, 32, 63, 64))
                            if state == 'deep' and (boundary or not isinstance(x, int)):
                                n_nt += 1
                                if sample is None and boundary:
                                    sample = case
                # lookups
                t = make(fam, kind, impl, state)
                before = listing(t, is_map)
                for zi, x in enumerate(ZOO):
                    rep, _ = classify(fam[0], x, 'key')
                    if rep is None or (fam[0] == 'O' and state != 'empty' and not comparable_with_ints(x)):
                        continue
                    case = {'fam': fam, 'impl': impl, 'kind': kind, 'state': state, 'entry': 'lookup',
                            'role': 'key', 'zoo': zi, 'repr': repr(x)[:40]}
                    ctx.begin(case)
                    try:
                        _lookup(ctx, case, t, is_map, x, rep, before, classes)
                    except Violation as v:
                        ctx.violation = {'case': case, 'msg': v.msg, 'sig': v.sig}
                        return
                    n_eval += 1
    ctx.ok_bulk(n_eval, n_nt, classes, sample=sample)


def replay(case, ctx):
    fam, impl, kind = case['fam'], case['impl'], case['kind']
    x = ZOO[case['zoo']]
    is_tree = F.is_tree(kind)
    with F.NodeSizes(F.cls(fam, kind, impl), (3, 3) if is_tree else None):
        if case['entry'] == 'lookup':
            t = make(fam, kind, impl, case['state'])
            rep, _ = classify(fam[0], x, 'key')
            _lookup(ctx, case, t, F.is_map(kind), x, rep, listing(t, F.is_map(kind)), {})
        else:
            code = fam[0] if case['role'] == 'key' else fam[1]
            rep, expect = classify(code, x, case['role'])
            _point(ctx, case, fam, impl, kind, case['state'], case['entry'], case['role'], x, rep, expect, {})


def _typeclass(x):
    if isinstance(x, bool):
        return 'bool'
    if isinstance(x, int):
        return 'int'
    if isinstance(x, float):
        return 'float:' + ('nan' if math.isnan(x) else 'inf' if math.isinf(x) else
                           'over' if abs(x) > FLT_MAX else 'sub' if x != 0 and abs(x) < 2.0 ** -126 else 'fin')
    return type(x).__name__


def _point(ctx, case, fam, impl, kind, state, entry, role, x, rep, expect, classes):
    is_map, is_tree = F.is_map(kind), F.is_tree(kind)
    klass = F.cls(fam, kind, impl)
    t = make(fam, kind, impl, state)
    before = listing(t, is_map)
    gk, gv = good_key(fam), good_value(fam)
    k = x if role == 'key' else gk
    v = x if role == 'value' else gv
    sig = {'impl': impl, 'kind': kind, 'entry': entry, 'role': role, 'code': fam[0] if role == 'key' else fam[1],
           'type': _typeclass(x), 'rep': rep, 'state': state}
    desc = '%s%s(%s) [%s container] %s with %s %r' % (fam, kind, impl, state, entry, role, x)
    try:
        if entry == 'setitem':
            t[k] = v
        elif entry == 'insert' and is_map:
            t.insert(k, v)
        elif entry == 'setdefault':
            t.setdefault(k, v)
        elif entry == 'update':
            t.update([(k, v)] if is_map else [k])
        elif entry == 'ctor':
            t = klass([(k, v)] if is_map else [k])
        elif entry == 'setstate':
            leaf = ((k, v),) if is_map else ((k,),)
            t.__setstate__(((leaf,),) if is_tree else leaf)
        elif ':' in entry:
            # the data arrive inside another container (a dict, or a container of the
            # all-accepting OO family of the same implementation)
            how, src = entry.split(':')
            try:
                if src == 'dict':
                    source = {k: v}
                else:
                    source = F.cls('OO', src[2:], impl)()
                    if is_map:
                        source[k] = v
                    else:
                        source.add(k)
            except Exception:
                classes['source_not_constructible'] = classes.get('source_not_constructible', 0) + 1
                return
            if how == 'update':
                t.update(source)
            else:
                t = klass(source)
        elif entry == 'add':
            t.add(k)
        elif entry == 'insert':
            t.insert(k)
        elif entry == 'ior':
            t |= [k]
        got = 'ok'
    except Exception as e:
        got = type(e).__name__
    key = '%s:%s:%s:%s' % (sig['code'], sig['type'], 'rep' if rep else 'unrep', got if got in ('ok', 'TypeError') else 'OTHER:' + got)
    classes[key] = classes.get(key, 0) + 1
    after = None
    try:
        after = listing(t, is_map)
    except Exception as e:
        ctx.mismatch('%s: afterwards the container cannot be listed: %s: %s' % (desc, type(e).__name__, e),
                     dict(sig, what='unlistable', got=got))
        return
    if rep == 'either':
        rep = (got == 'ok')
        sig['rep'] = rep
    if rep:
        if got != 'ok':
            ctx.mismatch('%s: a representable datum was rejected with %s' % (desc, got), dict(sig, what='rejected', got=got))
            return
        ek = expect if role == 'key' else gk
        ev = expect if role == 'value' else gv
        # read back
        try:
            present = ek in t
        except Exception as e:
            present = 'raised %s' % type(e).__name__
        if present is not True:
            ctx.mismatch('%s: stored, but the key is not found afterwards (%r)' % (desc, present), dict(sig, what='readback'))
            return
        # ... and through enumeration: the listing holds exactly this key (value), in ascending order
        listed = [b[0] for b in after] if is_map else list(after)
        hits = [x for x in listed if _same_key(x, ek)]
        if len(hits) != 1 or (sig['code'] in F.BOUNDS and role == 'key' and type(hits[0]) is not int):
            ctx.mismatch('%s: stored and found by lookup, but the listing of the container shows %r' % (desc, after),
                         dict(sig, what='readback', got='listing'))
            return
        try:
            ordered = listed == sorted(listed, key=F.sortkey)
        except TypeError:
            ordered = True
        if not ordered:
            ctx.mismatch('%s: the listing is not ascending afterwards: %r' % (desc, after), dict(sig, what='readback', got='order'))
            return
        if is_map:
            lv = [b[1] for b in after if _same_key(b[0], ek)][0]
            if not same_value(lv, ev):
                ctx.mismatch('%s: the listing shows the value %r, expected %r' % (desc, lv, ev),
                             dict(sig, what='readback', got='wrong-value'))
                return
        if is_tree and listed:
            mk, xk = t.minKey(), t.maxKey()
            if not (_same_key(mk, listed[0]) and _same_key(xk, listed[-1])):
                ctx.mismatch('%s: minKey()/maxKey() %r/%r disagree with the listing %r' % (desc, mk, xk, after),
                             dict(sig, what='readback', got='minmax'))
                return
        if is_map:
            rv = t[ek]
            if not same_value(rv, ev) or (isinstance(ev, float) and not isinstance(rv, float)):
                ctx.mismatch('%s: reads back %r, expected %r' % (desc, rv, ev), dict(sig, what='readback', got='wrong-value'))
            had = any(_same_key(b[0], ek) for b in before)
            if len(after) != len(before) + (0 if had else 1):
                ctx.mismatch('%s: contents afterwards %r' % (desc, after), dict(sig, what='contents'))
        else:
            had = any(_same_key(b, ek) for b in before)
            if len(after) != len(before) + (0 if had else 1):
                ctx.mismatch('%s: contents afterwards %r' % (desc, after), dict(sig, what='contents'))
    else:
        if got == 'ok':
            ctx.mismatch('%s: an unrepresentable datum was accepted; contents now %r' % (desc, after),
                         dict(sig, what='accepted'))
            return
        if got != 'TypeError':
            ctx.mismatch('%s: rejected with %s instead of TypeError' % (desc, got), dict(sig, what='wrong-exception', got=got))
        if after != before and not _nan_equal(after, before):
            ctx.mismatch('%s: rejected (%s) but the contents changed: %r -> %r' % (desc, got, before, after),
                         dict(sig, what='modified', got=got))
        if is_tree:
            try:
                t._check()
            except AssertionError as e:
                ctx.mismatch('%s: rejected (%s) but the tree is damaged: %s' % (desc, got, e), dict(sig, what='damaged', got=got))
            if state == 'empty' and (bool(t) or t.__getstate__() is not None or len(t) != 0):
                ctx.mismatch('%s: rejected (%s) but the empty tree is no longer empty: bool=%r state=%r'
                             % (desc, got, bool(t), t.__getstate__()), dict(sig, what='not-rolled-back', got=got))


def _same_key(a, b):
    try:
        return bool(a == b)
    except Exception:
        return False


def _nan_equal(a, b):
    return repr(a) == repr(b)


def _lookup(ctx, case, t, is_map, x, rep, before, classes):
    fam = case['fam']
    sig = {'impl': case['impl'], 'kind': case['kind'], 'entry': 'lookup', 'code': fam[0], 'type': _typeclass(x),
           'rep': rep, 'state': case['state']}
    desc = '%s%s(%s) [%s container] lookup of %r' % (fam, case['kind'], case['impl'], case['state'], x)
    present = False
    if rep:
        present = any((kk == x) for kk in ([b[0] for b in before] if is_map else before)) if not isinstance(x, float) or x == x else False
    calls = [('in', lambda: x in t, present), ('has_key', lambda: bool(t.has_key(x)), present)]
    if is_map:
        calls += [('get', lambda: t.get(x, 'DEFAULT') == 'DEFAULT', not present)]
    for name, f, want in calls:
        try:
            r = f()
        except Exception as e:
            ctx.mismatch('%s: %s raised %s: %s' % (desc, name, type(e).__name__, e),
                         dict(sig, what='lookup-raises', call=name, got=type(e).__name__))
            continue
        if bool(r) != bool(want):
            ctx.mismatch('%s: %s says %r' % (desc, name, r), dict(sig, what='lookup-wrong', call=name))
    if is_map and not present:
        try:
            t[x]
            ctx.mismatch('%s: [] returned a value for an absent key' % desc, dict(sig, what='lookup-wrong', call='getitem'))
        except KeyError:
            pass
        except Exception as e:
            ctx.mismatch('%s: [] raised %s instead of KeyError' % (desc, type(e).__name__),
                         dict(sig, what='lookup-raises', call='getitem', got=type(e).__name__))
    k = 'lookup:%s:%s' % (fam[0], _typeclass(x))
    classes[k] = classes.get(k, 0) + 1
