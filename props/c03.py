"""C03 - a container used only through its API is never internally damaged."""
from vlib import families as F
from vlib import histories as H
from vlib import walker
from vlib.runner import Violation

ID = 'C03'
LEVEL = 'exploration'
TECHNIQUE = ('model-based stateful testing: Hypothesis-generated mutating histories on BTree/TreeSet '
             'with tiny node sizes; after every operation the package checkers (_check(), '
             'BTrees.check.check()) and an independent structure walker (chain/descent identity, '
             'non-empty nodes, uniform child kinds, separator containment, node-size bounds) must pass')
RULE = ('a case is a configuration (family, tree kind, implementation, node sizes >= 2 set on the '
        'class or a subclass) plus a history of public calls, checked after every call.  '
        'Non-trivial: height >= 3 was reached and at least one leaf was unlinked.  '
        'Distinct = distinct case JSON.')
ASSUMPTIONS = ['walker reads only documented __getstate__ layouts and the _firstbucket/_next attributes',
               'size bounds asserted only for trees built through the API in this case']


def shards(tier, seed):
    n = {'quick': 500, 'thorough': 8000}[tier]
    max_ops = {'quick': 50, 'thorough': 300}[tier]
    out = []
    for i in range(16):
        fams = F.rotate(F.FAMILIES, seed * 5 + i * 3, 6 if tier == 'quick' else 22)
        out.append({'fams': fams, 'n': n, 'max_ops': max_ops})
    return out


def run_shard(shard, ctx):
    cfgs = F.configs(fams=shard['fams'], kinds=list(F.TREE_KINDS), sizes=F.SMALL_SIZES * 3 + [None])
    strat = H.cases(cfgs, max_ops=shard['max_ops'], readonly_weight=0)
    ctx.hyp(strat, run_case, shard['n'], 'hist')


def replay(case, ctx):
    run_case(case, ctx)


def verify(lv, ctx, i, op):
    """All soundness oracles on lv.t; returns the Walk."""
    from BTrees import check as bcheck
    t = lv.t
    sig = {'impl': lv.impl, 'kind': lv.kind, 'op': op[0], 'mode': lv.mode}
    try:
        t._check()
    except AssertionError as e:
        raise Violation('after step %d %r: _check() failed: %s' % (i, op, e), dict(sig, what='_check'))
    try:
        bcheck.check(t)
    except AssertionError as e:
        raise Violation('after step %d %r: BTrees.check.check() failed: %s' % (i, op, e),
                        dict(sig, what='check.check'))
    except Exception as e:
        ctx.mismatch('after step %d %r: BTrees.check.check() raised %s: %s (node sizes set on a %s)'
                     % (i, op, type(e).__name__, e, lv.mode),
                     dict(sig, what='check.check:' + type(e).__name__))
    ml, mi = (t.max_leaf_size, t.max_internal_size) if not lv.loaded else (None, None)
    try:
        w = walker.walk(t, lv.is_map, max_leaf=ml, max_internal=mi)
    except walker.WalkError as e:
        raise Violation('after step %d %r: independent walk: %s' % (i, op, e), dict(sig, what='walk'))
    return w


def run_case(case, ctx):
    cfg = case['cfg']
    with H.Live(cfg) as lv:
        unlinked = False
        for i, op in enumerate(case['ops']):
            got, want, mode = lv.step(op)
            if not H.same(got, want, mode):
                # semantic disagreement is C01's business; known ones end the case quietly
                ctx.known(dict(H.arg_features(lv, op), impl=lv.impl, kind=lv.kind, op=op[0],
                               got=H.fmt(got), want=H.fmt(want)))
            w = verify(lv, ctx, i, op)
            ks = w.keys
            mk = lv.sorted_keys()
            if ks != mk and H.same(got, want, mode):
                c = lv.contents()
                if (c if not lv.is_map else [k for k, _ in c]) == mk:
                    raise Violation('after step %d %r: walk sees keys %r, API sees %r' % (i, op, ks, mk),
                                    {'impl': lv.impl, 'kind': lv.kind, 'op': op[0], 'what': 'walk-vs-api'})
                lv.model = dict((k, None) for k in ks) if not lv.is_map else dict(c)
            elif ks != mk:
                # resynchronise the model after a (known or C01) semantic disagreement
                c = lv.contents()
                lv.model = dict((k, None) for k in c) if not lv.is_map else dict(c)
            lv.observe_shape()
        ev = lv.events
        unlinked = any(e.startswith('unlink') for e in ev)
        classes = ['kind:' + lv.kind, 'impl:' + lv.impl, 'sizes:%s' % (lv.sizes,), 'mode:' + lv.mode,
                   'height:%d' % min(lv.max_height, 5)] + sorted(ev)
        return (lv.max_height >= 3 and unlinked), classes
