"""C19 - Length is a conflict-free counter."""
import copy
import pickle

from hypothesis import strategies as st

from vlib.runner import Violation

ID = 'C19'
LEVEL = 'exploration'
TECHNIQUE = ('Hypothesis-generated unbounded integer triples and call histories against an '
             'integer-cell model; two-connection commit schedules on a mini-ZODB')
RULE = ('cases are Hypothesis-generated: (old,a,b) triples of unbounded integers (incl. > 2^64, '
        'negatives) checked in both argument orders; set/change/call/pickle/copy/setstate '
        'histories against an int model; two mini-ZODB connections changing one stored Length, '
        'both commit orders, fresh reader afterwards.  Non-trivial: triple/schedule with a != 0 '
        'and b != 0, history with >= 2 mutations and a pickle/copy. Distinct = distinct case JSON.')
ASSUMPTIONS = ['mini-ZODB (vlib/minizodb.py) models ZODB commit/conflict-resolution protocol',
               'values are Python ints (the property quantifies over integers)']

BIG = st.one_of(
    st.integers(-20, 20),
    st.integers(),
    st.integers(-2 ** 70, 2 ** 70),
    st.sampled_from([0, 1, -1, 2 ** 31 - 1, 2 ** 31, -2 ** 31, 2 ** 32, 2 ** 63 - 1, 2 ** 63,
                     -2 ** 63, 2 ** 64, 2 ** 64 + 1, 10 ** 40, -10 ** 40]),
)

OPS = st.one_of(
    st.tuples(st.just('set'), BIG),
    st.tuples(st.just('change'), BIG),
    st.tuples(st.just('call')),
    st.tuples(st.just('call_args'), BIG),
    st.tuples(st.just('pickle'), st.integers(0, 5)),
    st.tuples(st.just('copy')),
    st.tuples(st.just('deepcopy')),
    st.tuples(st.just('getstate')),
    st.tuples(st.just('setstate'), BIG),
    st.tuples(st.just('newinit'), BIG),
).map(list)

TRIPLE = st.fixed_dictionaries({'k': st.just('triple'), 'old': BIG, 'a': BIG, 'b': BIG})
HIST = st.fixed_dictionaries({'k': st.just('hist'), 'init': st.one_of(st.none(), BIG),
                              'ops': st.lists(OPS, max_size=25)})
TXN = st.lists(st.one_of(st.tuples(st.just('change'), BIG), st.tuples(st.just('set'), BIG),
                         st.tuples(st.just('call'))).map(list), min_size=1, max_size=4)
CONC = st.fixed_dictionaries({'k': st.just('conc'), 'old': BIG, 'ta': TXN, 'tb': TXN,
                              'a_first': st.booleans(), 'third': st.one_of(st.none(), TXN)})


def shards(tier, seed):
    n = {'quick': (1500, 150, 60), 'thorough': (60000, 6000, 2500)}[tier]
    return [{'n_triple': n[0], 'n_hist': n[1], 'n_conc': n[2]} for _ in range(16)]


def run_shard(shard, ctx):
    ctx.hyp(TRIPLE, run_case, shard['n_triple'], 'triple') and \
        ctx.hyp(HIST, run_case, shard['n_hist'], 'hist') and \
        ctx.hyp(CONC, run_case, shard['n_conc'], 'conc')


def replay(case, ctx):
    run_case(case, ctx)


def run_case(case, ctx):
    from BTrees.Length import Length
    k = case['k']
    if k == 'triple':
        old, a, b = case['old'], case['a'], case['b']
        want = old + a + b
        for s1, s2, order in ((old + a, old + b, 'ab'), (old + b, old + a, 'ba')):
            got = Length()._p_resolveConflict(old, s1, s2)
            if got != want or type(got) is not int:
                raise Violation('Length._p_resolveConflict(%r, %r, %r) = %r, expected %r'
                                % (old, s1, s2, got, want), {'k': 'triple', 'order': order})
        return (a != 0 and b != 0), ('triple', 'big' if abs(old) > 2 ** 64 else 'small')
    if k == 'hist':
        return _hist(case, Length)
    return _conc(case, Length, ctx)


def _hist(case, Length):
    init = case['init']
    if init is None:
        ln, m = Length(), 0
    else:
        ln, m = Length(init), init
    muts = 0
    rt = 0

    def bad(what, got, want, i):
        raise Violation('history step %d %s: got %r, model %r' % (i, what, got, want),
                        {'k': 'hist', 'op': what})

    for i, op in enumerate(case['ops']):
        o = op[0]
        if o == 'set':
            r = ln.set(op[1]); m = op[1]; muts += 1
            if r is not None:
                bad(o, r, None, i)
        elif o == 'change':
            r = ln.change(op[1]); m = m + op[1]; muts += 1
            if r is not None:
                bad(o, r, None, i)
        elif o == 'call':
            if ln() != m:
                bad(o, ln(), m, i)
        elif o == 'call_args':
            if ln(op[1]) != m:
                bad(o, ln(op[1]), m, i)
        elif o == 'pickle':
            ln = pickle.loads(pickle.dumps(ln, op[1])); rt += 1
            if type(ln) is not Length:
                bad(o, type(ln), Length, i)
        elif o == 'copy':
            ln = copy.copy(ln); rt += 1
        elif o == 'deepcopy':
            ln = copy.deepcopy(ln); rt += 1
        elif o == 'getstate':
            if ln.__getstate__() != m:
                bad(o, ln.__getstate__(), m, i)
        elif o == 'setstate':
            ln.__setstate__(op[1]); m = op[1]; muts += 1
        elif o == 'newinit':
            ln = Length(op[1]); m = op[1]
        if ln() != m or ln.value != m:
            bad(o + ':after', ln(), m, i)
    return (muts >= 2 and rt >= 1), ('hist',)


def _apply(ln, m, txn):
    for op in txn:
        if op[0] == 'change':
            ln.change(op[1]); m += op[1]
        elif op[0] == 'set':
            ln.set(op[1]); m = op[1]
        else:
            if ln() != m:
                raise Violation('in-transaction read %r != %r' % (ln(), m), {'k': 'conc', 'op': 'call'})
    return m


def _conc(case, Length, ctx):
    from vlib import minizodb as z
    old = case['old']
    sto = z.Storage()
    c0 = z.Connection(sto)
    ln = Length(old)
    c0.add(ln)
    c0.commit()
    oid = ln._p_oid
    ca, cb = z.Connection(sto), z.Connection(sto)
    la, lb = ca.get(oid), cb.get(oid)
    ma = _apply(la, old, case['ta'])
    mb = _apply(lb, old, case['tb'])
    first, second = (ca, cb) if case['a_first'] else (cb, ca)
    first.commit()
    try:
        second.commit()
    except z.ConflictError as e:
        raise Violation('second commit of a Length raised %r' % (e,), {'k': 'conc', 'op': 'commit'})
    want = old + (ma - old) + (mb - old)
    got = z.Connection(sto).get(oid)()
    if got != want:
        raise Violation('after concurrent commits reader sees %r, expected %r (old=%r, a=%r, b=%r)'
                        % (got, want, old, ma - old, mb - old), {'k': 'conc', 'op': 'read'})
    # both writers see the merged value in their next transaction
    for conn, l_ in ((ca, la), (cb, lb)):
        conn.begin()
        if l_() != want:
            raise Violation('writer connection sees %r after sync, expected %r' % (l_(), want),
                            {'k': 'conc', 'op': 'sync'})
    if case['third'] is not None:
        # a further round: first connection changes again on top of the merged value, the
        # original connection c0 (stale snapshot) changes concurrently
        c0.begin()
        m0 = _apply(ln, want, case['third'])
        m1 = _apply(la, want, case['ta'])
        ca.commit()
        c0.commit()
        want2 = want + (m0 - want) + (m1 - want)
        got2 = z.Connection(sto).get(oid)()
        if got2 != want2:
            raise Violation('second round: reader sees %r, expected %r' % (got2, want2),
                            {'k': 'conc', 'op': 'read2'})
    return (ma != old and mb != old), ('conc', 'a_first' if case['a_first'] else 'b_first')
