"""C17 - running out of memory inside an operation of the C extension is reported, not corrupting.

Fault enumeration with the BTREES_VERIF allocation hook: for every probe operation of a generated
case the allocations the extension module makes are counted on a clone (N), then the operation is
re-run on a fresh clone for EVERY n in 1..N with the n-th allocation failing.
"""
from vlib import families as F
from vlib import faults

ID = 'C17'
LEVEL = 'fault_enumeration'
TECHNIQUE = ('fault enumeration over generated histories with an allocation-failure hook (BTREES_VERIF build): '
             'Hypothesis generates a tree-building history and a list of probe operations that allocate (insert '
             'into a full leaf, leaf / interior / root split, first insert, setdefault, update, constructors, set '
             'algebra, weighted set operations, in-place set operators, conflict merge, __setstate__, unpickling, '
             'copy, multiunion on both sort paths) over all 22 families; for each probe the number N of '
             'allocations made by the extension (BTree_Malloc / BTree_Realloc, node creation, radix work buffer) '
             'is counted on a clone and the probe is re-run on a fresh clone for every n in 1..N with the n-th '
             'allocation failing; oracle: MemoryError reaches the caller (or the documented fallback returns the '
             'right result), _check() and an independent structure walk pass, contents are exactly the previous '
             'ones or the completed change (per element for bulk operations), a follow-up workload agrees with the '
             'reference model, reference counts of object keys / values equal the slots holding them; everything '
             'runs under ASan/UBSan with asserts enabled, so touching freed memory kills the worker (captured as a '
             'crash); '
             'a third of the cases run stored (clone committed to a mini-ZODB connection and swept before the fault is armed: allocations made while nodes are loaded inside the operation are enumerated too), followed by a commit and a fresh reader; every conflict-merge triple over a 3-key universe with every allocation failed in turn')
RULE = ('a case is a configuration + build history + probe list; every (probe, n) pair is one fault injection.  '
        'evaluations = fault injections executed (+1 per probe for the fault-free counting pass).  Non-trivial '
        'injection: the probe mutates, or n >= 2 (the fault fell after at least one successful allocation), on a '
        'container with >= 2 entries.  Distinct: injections of one case are distinct by construction (probe index, '
        'n); injections of a case whose JSON was already seen in the shard are not counted again.')
ASSUMPTIONS = ['C implementation only; only allocations the extension makes itself fail (BTree_Malloc, '
               'BTree_Realloc, creation of leaf / interior nodes in BTree_newBucket, BTree_grow, BTree_split_root, '
               'the radix-sort work buffer); allocations inside CPython (tuples, ints, lists, iterators, result '
               'objects created by calling a type) are not failed',
               'one failure per operation: after the n-th allocation fails, later allocations succeed',
               'bulk operations (update, |=, &=, -=, ^=, constructors) are required to be atomic per element, '
               'not as a whole',
               'multiunion may return the correct result instead of raising (its radix sort documents a fallback '
               'to quicksort when the work buffer cannot be allocated)',
               'sanitizer build (gcc ASan+UBSan, -UNDEBUG, PYTHONMALLOC=malloc)']


def shards(tier, seed):
    n = {'quick': 12, 'thorough': 400}[tier]
    nf = 4 if tier == 'quick' else 22
    out = [{'n': n, 'impl': 'c', 'variant': 'san', 'fams': F.rotate(F.FAMILIES, seed * 7 + i * 4, nf)}
           for i in range(16)]
    # bounded-exhaustive conflict merges: every triple of subsets of a 3-key universe (thorough: 4 keys) for one
    # (family, kind) slice per shard, every allocation of every merge failed in turn
    kinds = ['Bucket', 'Set', 'BTree', 'TreeSet']
    for i, sh in enumerate(out):
        fam = F.FAMILIES[(seed * 3 + i * 7) % len(F.FAMILIES)]
        sh['enum_merge'] = {'cfg': {'fam': fam, 'kind': kinds[i % 4], 'impl': 'c', 'sizes': None},
                            'universe': 3 if tier == 'quick' else 4}
        # stored growth sweep: small stored trees of every size 2..14 (thorough: ..24), one insert at the far left, in
        # the middle and at the far right (leaf, interior and root splits on ghosts), every allocation failed in turn
        sh['enum_grow'] = {'fam': fam, 'kind': ['BTree', 'TreeSet'][i % 2], 'sizes': [[2, 2], [2, 3], [3, 2], [3, 3]][(i // 2) % 4],
                           'upto': 14 if tier == 'quick' else 24}
    return out


def grow_cases(spec):
    fam, kind = spec['fam'], spec['kind']
    is_map = F.is_map(kind)
    for n in range(2, spec['upto'] + 1):
        build = [(['set', 10 + 2 * j, j % 6] if is_map else ['add', 10 + 2 * j]) for j in range(n)]
        probes = []
        for k in (0, 10 + n, 11 + 2 * n):        # smaller than everything, in a gap in the middle, larger than everything
            k = k if k % 2 else k + 1
            probes.append(['set', k, 1, False] if is_map else ['add', k, False])
        yield {'cfg': {'fam': fam, 'kind': kind, 'impl': 'c', 'sizes': spec['sizes'], 'stored': True, 'census': False},
               'build': build, 'probes': probes}


def _cases(shard):
    from hypothesis import strategies as st

    @st.composite
    def case(draw):
        fam = draw(st.sampled_from(shard['fams']))
        kind = draw(st.sampled_from(['BTree', 'BTree', 'TreeSet', 'Bucket', 'Set']))
        sizes = draw(st.sampled_from([[2, 2], [3, 2], [2, 3], [3, 3], [2, 2], [3, 3], [4, 3], [5, 4], None]))
        is_map = F.is_map(kind)
        numeric = is_map and fam[1] in 'IULQF'
        intkeys = fam[0] in 'IULQ'
        K = st.integers(0, 24)
        V = st.integers(0, 5)
        fresh = st.just(False)
        op = lambda *a: st.tuples(*[st.just(x) if isinstance(x, str) else x for x in a]).map(list)
        okinds = ['Set', 'TreeSet', 'list'] + (['Bucket', 'BTree'] if is_map else [])
        ks = st.lists(K, max_size=9)
        if is_map:
            probes = [op('set', K, V, fresh)] * 4 + [
                op('setdefault', K, V, fresh), op('del', K, fresh), op('pop', K, fresh), op('popitem'),
                op('update', st.lists(st.tuples(K, V).map(list), max_size=7),
                   st.sampled_from(['pairs', 'dict', 'Bucket', 'BTree'])),
                op('update', st.lists(st.tuples(K, V).map(list), max_size=7),
                   st.sampled_from(['pairs', 'dict', 'Bucket', 'BTree'])),
                op('ctor', st.lists(st.tuples(K, V).map(list), max_size=8),
                   st.sampled_from(['pairs', 'Bucket', 'BTree']))]
            if kind == 'BTree':
                probes.append(op('insert', K, V, fresh))
            if numeric:
                probes += [op('weighted', st.sampled_from(['weightedUnion', 'weightedIntersection']), ks,
                              st.sampled_from(['Set', 'TreeSet', 'Bucket', 'BTree']), st.integers(0, 3),
                              st.integers(0, 3), st.booleans())] * 2
        else:
            probes = [op('add', K, fresh)] * 4 + [
                op('remove', K, fresh), op('popmin'),
                op('update', ks, st.sampled_from(['list', 'Set', 'TreeSet'])),
                op('ior', ks, st.sampled_from(['list', 'Set', 'TreeSet'])),
                op('iand', ks, st.sampled_from(['list', 'Set', 'TreeSet'])),
                op('isub', ks, st.sampled_from(['list', 'Set', 'TreeSet'])),
                op('ixor', ks, st.sampled_from(['list', 'Set', 'TreeSet'])),
                op('ctor', ks, st.sampled_from(['list', 'Set', 'TreeSet']))]
            if kind == 'TreeSet':
                probes.append(op('insert', K, fresh))
        probes += [op('algebra', st.sampled_from(['union', 'intersection', 'difference', 'or', 'and', 'sub']
                                                 + ([] if is_map else ['xor'])),
                      ks, st.sampled_from(okinds), st.booleans()),
                   op('algebra', st.sampled_from(['union', 'intersection', 'difference', 'or', 'and', 'sub']),
                      ks, st.sampled_from(okinds), st.booleans()),
                   op('merge', st.lists(K, max_size=6), st.lists(K, max_size=6), st.lists(K, max_size=6),
                      st.sampled_from(['leaf', 'tree']), st.integers(0, 2)),
                   op('pickle', st.integers(0, 3)), op('copy'), op('setstate'), op('setstate')]
        if intkeys:
            # sizes: below the 800-element radix cut, just above it, and far above it (when the radix work buffer
            # cannot be allocated the documented fallback quicksorts an input of ANY size)
            probes += [op('multiunion', st.integers(0, 40), st.one_of(st.integers(0, 30), st.integers(801, 840),
                                                                      st.integers(801, 840), st.integers(3000, 9000)),
                          st.sampled_from([1, 1, 3]), st.lists(K, max_size=4), st.booleans(), st.booleans())] * 2
        fill = draw(st.one_of(st.integers(0, 3), st.integers(4, 22), st.integers(8, 22)))
        start = draw(st.integers(0, 10))
        step = draw(st.sampled_from([1, 1, 2]))
        build = [(['set', start + j * step, j % 6] if is_map else ['add', start + j * step]) for j in range(fill)]
        thin = draw(st.lists(st.one_of(op('rm', K), op('rm', K), (op('set', K, V) if is_map else op('add', K))),
                             max_size=8))
        cfg = {'fam': fam, 'kind': kind, 'impl': 'c'}
        if draw(st.integers(0, 2)) == 0:
            cfg['stored'] = True        # committed + swept: the probe starts on ghosts (allocations while loading)
        if kind in F.TREE_KINDS:
            cfg['sizes'] = sizes
        plist = draw(st.lists(st.one_of(*probes), min_size=3, max_size=9))
        if intkeys and draw(st.booleans()):
            # one multiunion with every operand form (list, TreeSet, exact Set, bare ints, the clone) and more than
            # 16 keys in total, so that the result buffer grows while an exact Set is appended
            plist.append(['multiunion', draw(st.integers(0, 40)), draw(st.integers(17, 30)), 1,
                          [draw(K), draw(K), 50], True, draw(st.booleans())])
        return {'cfg': cfg, 'build': build + thin, 'probes': plist}

    return case()


def run_case(case, ctx):
    return faults.run_case(case, ctx, faults.AllocFault)


def run_shard(shard, ctx):
    if not ctx.hyp(_cases(shard), run_case, shard['n'], 'oom'):
        return
    em = shard.get('enum_merge')
    if em:
        n = 0
        for case in faults.merge_enum_cases(em['cfg'], em['universe']):
            n += len(case['probes'])
            if not ctx.run_case(case, run_case):
                return
        ctx.count('enumerated_merge_triples', n)
    eg = shard.get('enum_grow')
    if eg:
        n = 0
        for case in grow_cases(eg):
            n += len(case['probes'])
            if not ctx.run_case(case, run_case):
                return
        ctx.count('enumerated_stored_growth_probes', n)


def replay(case, ctx):
    run_case(case, ctx)
