"""C02 - range searches and lazy key/value/item sequences are exact."""
import bisect

from vlib import families as F
from vlib import histories as H
from vlib import treespec, walker
from vlib.runner import Violation

ID = 'C02'
LEVEL = 'exploration'
TECHNIQUE = ('bounded-exhaustive enumeration of range queries (all (min,max) pairs over present keys, '
             'gap values, below/above, None/omitted x 4 exclusion flags; all minKey/maxKey bounds; '
             'all indexes and step-1 slices of the lazy results) on Hypothesis-generated containers '
             '(thinning histories and shapes built through __setstate__ incl. stale separators and '
             'unequal depths), compared with list comprehensions over a reference model')
RULE = ('a case is a container (<= 16 keys; built by a call history or from a generated shape) on '
        'which the full query grid is evaluated; evaluations counts queries.  Non-trivial query: '
        'the container has >= 2 leaves and a bound is a real key or a gap value, or an exclusive end '
        'is unbounded.  distinct_nontrivial counts non-trivial (container, query) points, which are '
        'distinct by construction inside a case; cases are distinct by their JSON.')
ASSUMPTIONS = ['reference model: sorted key list + list comprehension',
               'integer-like keys (so that gap values exist); object keys are ints plus None',
               'values()/items()/iter* forms are checked on a third of the grid (case-chosen residue)']

FAMS = ['II', 'OO', 'LL', 'UU', 'QQ', 'fs', 'IO', 'OI', 'LF', 'UI', 'QO', 'IF', 'LQ', 'OL']
_NO = '<omitted>'


def shards(tier, seed):
    n = {'quick': 26, 'thorough': 500}[tier]
    out = []
    for i in range(16):
        fams = F.rotate(FAMS, seed * 3 + i, 4 if tier == 'quick' else len(FAMS))
        out.append({'fams': fams, 'n': n, 'py_every': 1})
    return out


def _cases(shard):
    from hypothesis import strategies as st
    fams = shard['fams']

    @st.composite
    def spec_case(draw):
        fam = draw(st.sampled_from(fams))
        kind = draw(st.sampled_from(['BTree', 'BTree', 'TreeSet']))
        impl = draw(st.sampled_from(['c', 'py']))
        spec = draw(treespec.valid_specs(fam, max_keys=14))
        return {'cfg': {'fam': fam, 'kind': kind, 'impl': impl, 'ktype': 'int'}, 'spec': spec,
                'res': draw(st.integers(0, 2))}

    @st.composite
    def ops_case(draw):
        cfg = draw(F.configs(fams=fams, sizes=[(2, 2), (2, 3), (3, 2), (3, 3), (4, 3)]))
        cfg['ktype'] = 'int'
        fam, kind = cfg['fam'], cfg['kind']
        dom = [x for x in F.domain(fam, 'int') if x is None or abs(x) < 2 ** 20]
        if fam[0] == 'O':
            dom = [x for x in dom if x is None or abs(x) < 100]
        K = st.sampled_from(dom)
        V = F.value_tokens(fam)
        n = len(dom)
        start = draw(st.integers(0, n - 1))
        length = draw(st.integers(3, 16))
        ops = []
        for j in range(length):
            tok = dom[(start + j) % n]
            ops.append(['set', tok, draw(V)] if F.is_map(kind) else ['add', tok])
        dels = draw(st.one_of(st.lists(K, max_size=12),
                              st.tuples(st.integers(0, length), st.integers(0, length)).map(
                                  lambda ab: [dom[(start + j) % n] for j in range(min(ab), max(ab))]),
                              st.integers(1, length).map(
                                  lambda a: [dom[(start + j) % n] for j in range(a)]),
                              st.integers(1, length).map(
                                  lambda a: [dom[(start + j) % n] for j in range(length - a, length)])))
        for tok in dels:
            ops.append(['popd', tok, 0 if fam[1] != 'F' else 0.0] if F.is_map(kind) else ['discard', tok])
        if fam[1] == 's':
            for o in ops:
                if o[0] == 'popd':
                    o[2] = 0
        return {'cfg': cfg, 'ops': ops, 'res': draw(st.integers(0, 2))}

    return st.one_of(spec_case(), spec_case(), ops_case(), ops_case(), ops_case())


def run_shard(shard, ctx):
    ctx.hyp(_cases(shard), run_case, shard['n'], 'trees', shrink=False)


def replay(case, ctx):
    run_case(case, ctx, only=case.get('query'))


# ----------------------------------------------------------------------------- the grid

def _bounds(keys, fam):
    """candidate bound tokens with their class: present / gap / below / above."""
    ints = [k for k in keys if k is not None]
    out = []
    lo, hi = None, None
    kc = fam[0]
    if kc in F.BOUNDS:
        lo, hi = F.BOUNDS[kc]
    elif kc == 'f':
        lo, hi = 0, 0xffff
    for k in ints:
        out.append((k, 'present'))
    for a, b in zip(ints, ints[1:]):
        if b - a > 1:
            out.append((a + 1, 'gap'))
    if ints:
        if lo is None or ints[0] - 1 >= lo:
            out.append((ints[0] - 1, 'below'))
        if hi is None or ints[-1] + 1 <= hi:
            out.append((ints[-1] + 1, 'above'))
    else:
        out.append((0, 'above'))
    return out


def expected_range(sk, has_none, mn, mx, exmin, exmax):
    """Indices [a, b) into the sorted key list sk (None first if has_none)."""
    ints = sk[1:] if has_none else sk
    off = 1 if has_none else 0
    if mn is _NO or mn is None:
        a = 1 if (exmin and sk) else 0
    else:
        a = (bisect.bisect_right(ints, mn) if exmin else bisect.bisect_left(ints, mn)) + off
    if mx is _NO or mx is None:
        b = len(sk) - (1 if (exmax and sk) else 0)
    else:
        b = (bisect.bisect_left(ints, mx) if exmax else bisect.bisect_right(ints, mx)) + off
    return a, max(a, b)


def run_case(case, ctx, only=None):
    cfg = case['cfg']
    fam, kind, impl = cfg['fam'], cfg['kind'], cfg['impl']
    is_map, is_tree = F.is_map(kind), F.is_tree(kind)
    lv = None
    try:
        if 'spec' in case:
            t, _ = treespec.build(fam, kind, impl, case['spec'])
            model_keys = treespec.keys_of(case['spec'])
            built = 'spec'
        else:
            lv = H.Live(cfg)
            for op in case['ops']:
                lv.step(op)
            t = lv.t
            model_keys = None
            built = 'ops'
        # the model is the container's own full listing, cross-checked against construction
        if is_map:
            items = list(t.items())
            sk = [k for k, _ in items]
            vals = [v for _, v in items]
        else:
            sk = list(t)
            vals = None
        if model_keys is not None:
            want = [F.dk(fam, k) for k in model_keys]
        else:
            want = lv.sorted_keys()
        if sk != want:
            raise Violation('full listing %r differs from the constructed contents %r' % (sk, want),
                            {'impl': impl, 'kind': kind, 'call': 'list'})
        return _grid(case, ctx, t, fam, kind, impl, is_map, is_tree, sk, vals, built, only)
    finally:
        if lv is not None:
            lv.close()


def _grid(case, ctx, t, fam, kind, impl, is_map, is_tree, sk, vals, built, only):
    tok = [F.ek(fam, k) for k in sk]          # tokens (ints / None)
    has_none = bool(tok) and tok[0] is None
    if is_tree:
        w = walker.walk(t, is_map, check=False)
        nleaves = len(w.leaves)
        single_child_root = w.height >= 2 and w.root_children == 1
        leaf_last = set(lf.keys[-1] for lf in w.leaves if lf.keys)
    else:
        nleaves, single_child_root, leaf_last = 1, False, set()
    multi = nleaves >= 2
    bounds = _bounds(tok, fam) + [(None, 'none'), (_NO, 'omitted')]
    res = case.get('res', 0)
    n_eval = 0
    n_nontriv = 0
    classes = {}
    base_sig = {'impl': impl, 'kind': kind, 'leaves': '>1' if multi else '1',
                'single_child_root': single_child_root}

    def cnt(c):
        classes[c] = classes.get(c, 0) + 1

    def call(name, mn, mx, exmin, exmax, kw):
        f = getattr(t, name)
        args = []
        kwargs = {}
        if kw:
            if mn is not _NO:
                kwargs['min'] = mn
            if mx is not _NO:
                kwargs['max'] = mx
            if exmin:
                kwargs['excludemin'] = True
            if exmax:
                kwargs['excludemax'] = True
        else:
            args = [None if mn is _NO else mn, None if mx is _NO else mx, exmin, exmax]
            if mx is _NO and not exmin and not exmax:
                args = [] if mn is _NO else [mn]
        return f(*args, **kwargs)

    qi = 0
    for mn_t, mn_c in bounds:
        for mx_t, mx_c in bounds:
            for exmin in (False, True):
                for exmax in (False, True):
                    qi += 1
                    if only is not None and only != [mn_t, mx_t, exmin, exmax]:
                        continue
                    mn = mn_t if mn_t in (None, _NO) else F.dk(fam, mn_t)
                    mx = mx_t if mx_t in (None, _NO) else F.dk(fam, mx_t)
                    a, b = expected_range(tok, has_none, mn_t, mx_t, exmin, exmax)
                    nontriv = multi and (mn_c in ('present', 'gap') or mx_c in ('present', 'gap')
                                         or (exmin and mn_c in ('none', 'omitted'))
                                         or (exmax and mx_c in ('none', 'omitted')))
                    names = ['keys']
                    if qi % 3 == res:
                        if is_map:
                            names += ['values', 'items', 'iterkeys', 'itervalues', 'iteritems']
                    for name in names:
                        if name.endswith('keys'):
                            want = sk[a:b]
                        elif name.endswith('values'):
                            want = vals[a:b]
                        else:
                            want = list(zip(sk[a:b], vals[a:b]))
                        kw = (qi + len(name)) % 2 == 0
                        sig = dict(base_sig, call=name, min=mn_c, max=mx_c, exmin=exmin, exmax=exmax)
                        try:
                            r = call(name, mn, mx, exmin, exmax, kw)
                            got = list(r)
                        except Exception as e:
                            ctx.mismatch('%s: %s(min=%r, max=%r, excludemin=%r, excludemax=%r) on keys %r '
                                         'raised %s: %s' % (_d(case), name, mn_t, mx_t, exmin, exmax, tok,
                                                            type(e).__name__, e),
                                         dict(sig, got='exc:' + type(e).__name__))
                            continue
                        n_eval += 1
                        if got != want:
                            _q(case, [mn_t, mx_t, exmin, exmax])
                            ctx.mismatch('%s: %s(min=%r, max=%r, excludemin=%r, excludemax=%r) on keys %r '
                                         '(leaves %s) returned %r, expected %r'
                                         % (_d(case), name, mn_t, mx_t, exmin, exmax, tok,
                                            _leafsizes(t, is_map, is_tree), got, want),
                                         dict(sig, got='wrong'))
                            continue
                        if name in ('keys', 'values', 'items') and not isinstance(r, list):
                            n_eval += _lazy(case, ctx, r, want, sig, [mn_t, mx_t, exmin, exmax])
                    if nontriv:
                        n_nontriv += 1
                        cnt('min:%s/max:%s' % (mn_c, mx_c))
                        cnt('flags:%d%d' % (exmin, exmax))
                        span = _span(sk[a:b], leaf_last)
                        cnt('span:%s' % span)
    # minKey / maxKey
    for b_t, b_c in bounds:
        if only is not None:
            break
        for name in ('minKey', 'maxKey'):
            if b_t is _NO:
                args = []
            elif b_t is None:
                args = [None]
            else:
                args = [F.dk(fam, b_t)]
            ints = tok[1:] if has_none else tok
            if b_t is _NO or b_t is None:
                want = ('ok', (sk[0] if name == 'minKey' else sk[-1])) if sk else ('exc', ValueError)
            elif name == 'minKey':
                i = bisect.bisect_left(ints, b_t)
                want = ('ok', F.dk(fam, ints[i])) if i < len(ints) else ('exc', ValueError)
            else:
                i = bisect.bisect_right(ints, b_t)
                if i > 0:
                    want = ('ok', F.dk(fam, ints[i - 1]))
                elif has_none:
                    want = ('ok', None)
                else:
                    want = ('exc', ValueError)
            try:
                got = ('ok', getattr(t, name)(*args))
            except Exception as e:
                got = ('exc', type(e))
            n_eval += 1
            after_leaf_last = (b_c == 'gap' and F.dk(fam, b_t - 1) in leaf_last) if isinstance(b_t, int) else False
            if got != want:
                ctx.mismatch('%s: %s(%s) on keys %r (leaves %s): got %s, expected %s'
                             % (_d(case), name, '' if b_t is _NO else repr(b_t), tok,
                                _leafsizes(t, is_map, is_tree), H.fmt(got), H.fmt(want)),
                             dict(base_sig, call=name, bound=b_c, got=H.fmt(got), want=H.fmt(want),
                                  empty=not sk, after_leaf_last=after_leaf_last))
            if multi and b_c in ('present', 'gap'):
                n_nontriv += 1
                cnt('%s:%s%s' % (name, b_c, '+after_leaf_last' if after_leaf_last else ''))
    # an empty container of the same class
    if only is None:
        e = type(t)()
        for name in ('minKey', 'maxKey'):
            for args in [[], [None]] + ([[F.dk(fam, tok[-1])]] if tok and tok[-1] is not None else []):
                try:
                    got = ('ok', getattr(e, name)(*args))
                except Exception as ex:
                    got = ('exc', type(ex))
                n_eval += 1
                if got != ('exc', ValueError):
                    ctx.mismatch('%s: %s(%s) on an empty container: got %s, expected exc:ValueError'
                                 % (_d(case), name, args, H.fmt(got)),
                                 dict(base_sig, call=name, empty=True, got=H.fmt(got)))
        for name in ('keys',) + (('values', 'items') if is_map else ()):
            for args in [[], [None, None, True, True]] + ([[F.dk(fam, tok[0]), None, True]] if tok and tok[0] is not None else []):
                r = getattr(e, name)(*args)
                n_eval += 1
                if list(r) != [] or len(r) != 0:
                    ctx.mismatch('%s: %s(%s) on an empty container returned %r' % (_d(case), name, args, list(r)),
                                 dict(base_sig, call=name, empty=True, got='wrong'))
    cnt('built:' + built)
    cnt('kind:' + kind)
    cnt('impl:' + impl)
    cnt('leaves:%d' % min(nleaves, 6))
    if single_child_root:
        cnt('single_child_root')
    if 'spec' in case and case['spec'] is not None and _has_stale(case['spec']):
        cnt('stale_separator_tree')
    sample = None
    if n_nontriv and 'query' not in case:
        sample = dict(case, queries_evaluated=n_eval)
    ctx.ok_bulk(n_eval - 1 if n_eval else 0, n_nontriv, classes, sample=sample)
    return False, ()


def _lazy(case, ctx, r, want, sig, q):
    """len, bool, every index in [-len-1, len], step-1 slices (all for len <= 6, else sampled)."""
    n = 0
    L = len(want)

    def bad(what, got, exp):
        _q(case, q)
        ctx.mismatch('%s: lazy %s result for query %r: %s gave %r, list gives %r'
                     % (_d(case), sig['call'], q, what, got, exp), dict(sig, got='lazy:' + what.split('[')[0]))

    try:
        if len(r) != L:
            bad('len()', len(r), L)
        if bool(r) != bool(want):
            bad('bool()', bool(r), bool(want))
        n += 2
        for i in range(-L - 1, L + 1):
            try:
                g = ('ok', r[i])
            except IndexError:
                g = ('exc', 'IndexError')
            try:
                e = ('ok', want[i])
            except IndexError:
                e = ('exc', 'IndexError')
            n += 1
            if g != e:
                bad('[%d]' % i, g, e)
                break
        step = 1 if L <= 6 else 3
        idx = list(range(-L - 1, L + 2, step))
        for i in idx:
            for j in idx:
                g = list(r[i:j])
                n += 1
                if g != want[i:j]:
                    bad('[%d:%d]' % (i, j), g, want[i:j])
                    return n
        g = list(r[:])
        if g != want:
            bad('[:]', g, want)
    except (Violation, ):
        raise
    except Exception as e:
        if type(e).__name__ == 'Abandon':
            raise
        bad('raised ' + type(e).__name__, str(e), 'no exception')
    return n


def _span(keys, leaf_last):
    n = 1 + sum(1 for k in keys[:-1] if k in leaf_last)
    return '0' if not keys else ('1' if n == 1 else ('2' if n == 2 else '3+'))


def _leafsizes(t, is_map, is_tree):
    if not is_tree:
        return 'n/a'
    try:
        return walker.walk(t, is_map, check=False).shape()
    except Exception:
        return '?'


def _has_stale(spec):
    if spec is None or 'L' in spec:
        return False
    for i, c in enumerate(spec['N']):
        if i and spec['S'][i - 1] != treespec.keys_of(c)[0]:
            return True
        if _has_stale(c):
            return True
    return False


def _d(case):
    c = case['cfg']
    return '%s%s(%s)' % (c['fam'], c['kind'], c['impl'])


def _q(case, q):
    case['query'] = q
