"""C12 - weighted union / intersection follow the documented formula."""
from vlib import families as F
from vlib.runner import Violation

ID = 'C12'
LEVEL = 'exploration'
TECHNIQUE = ('differential testing against the documented formulas (Interfaces.IIMerge) evaluated literally: '
             'Hypothesis-generated operand pairs (Set, TreeSet, Bucket, BTree with tiny node sizes, None), '
             'overlap patterns, weights of the value type (omitted, 0, 1, negative for signed types, '
             'large) chosen so that every product and sum is exactly representable')
RULE = ('a case is (numeric-value family, implementation, two operand descriptors, weights); both '
        'weightedUnion and weightedIntersection are evaluated on it.  Non-trivial: a mapping combined '
        'with a set (either order) with non-default unequal weights and a common key.  Distinct = JSON.')
ASSUMPTIONS = ['oracle: v1*w1 + v2*w2 with "missing = 0, set member = 1", both-sets => plain set with weight 1 '
               '(union) / w1+w2 (intersection), None short-circuits - as documented',
               'no arithmetic that leaves the value type\'s range (overflow behaviour is unspecified); '
               'floats are dyadic so that float32 arithmetic is exact',
               'unsigned families: non-negative weights only (documented limitation of the C argument parser)']

NUM_FAMS = [f for f in F.FAMILIES if f[1] in 'IULQF']
BT = ('Set', 'TreeSet', 'Bucket', 'BTree')


def shards(tier, seed):
    n = {'quick': 400, 'thorough': 8000}[tier]
    return [{'n': n, 'fams': F.rotate(NUM_FAMS, seed * 3 + i * 3, 4 if tier == 'quick' else 16)}
            for i in range(16)]


def _cases(shard):
    from hypothesis import strategies as st

    @st.composite
    def case(draw):
        fam = draw(st.sampled_from(shard['fams']))
        impl = draw(st.sampled_from(['c', 'py']))
        ktype = draw(st.sampled_from(['int', 'str'])) if fam[0] == 'O' else 'int'
        dom = [x for x in F.domain(fam, ktype)]
        vt = fam[1]
        signed = vt in 'ILF'
        if vt == 'F':
            val = st.integers(-64 if signed else 0, 64).map(lambda k: k / 8.0)
            wt = st.one_of(st.sampled_from([0.0, 1.0, -1.0, 0.5, 2.0, 4.0, -0.25]), st.integers(-16, 16).map(lambda j: j / 4.0))
        else:
            lo = -1000 if signed else 0
            val = st.one_of(st.integers(lo, 1000), st.sampled_from([0, 1, lo, 1000]))
            wt = st.one_of(st.sampled_from([0, 1, 2, 1000] + ([-1, -1000] if signed else [])), st.integers(lo, 1000))
        kinds = st.sampled_from(list(BT) * 3 + ['none'])

        def operand():
            kind = draw(kinds)
            keys = draw(st.lists(st.sampled_from(dom), max_size=14, unique_by=repr))
            vals = [draw(val) for _ in keys]
            return {'kind': kind, 'keys': keys, 'vals': vals}
        a = operand()
        b = operand()
        pat = draw(st.sampled_from(['random', 'equal', 'nested', 'random']))
        if pat == 'equal':
            b = dict(b, keys=list(a['keys']), vals=[draw(val) for _ in a['keys']])
        elif pat == 'nested':
            b = dict(b, keys=a['keys'][::2], vals=[draw(val) for _ in a['keys'][::2]])
        nw = draw(st.sampled_from([0, 1, 2, 2, 2]))
        ws = [draw(wt) for _ in range(nw)]
        sizes = draw(st.sampled_from([[2, 2], [3, 2], [3, 3], None]))
        return {'fam': fam, 'impl': impl, 'ktype': ktype, 'a': a, 'b': b, 'w': ws, 'sizes': sizes}

    return case()


def run_shard(shard, ctx):
    ctx.hyp(_cases(shard), run_case, shard['n'], 'pairs')


def replay(case, ctx):
    run_case(case, ctx)


def build(fam, impl, spec):
    kind = spec['kind']
    if kind == 'none':
        return None, None, None
    keys = [F.dk(fam, k) for k in spec['keys']]
    c = F.cls(fam, kind, impl)()
    if F.is_map(kind):
        m = {}
        for k, v in zip(keys, spec['vals']):
            c[k] = v
            m[k] = v
        return c, m, True
    for k in keys:
        c.add(k)
    return c, dict((k, 1) for k in keys), False


def run_case(case, ctx):
    fam, impl = case['fam'], case['impl']
    nodes = [F.NodeSizes(F.cls(fam, k, impl), tuple(case['sizes']) if case.get('sizes') else None)
             for k in ('TreeSet', 'BTree')]
    for ns in nodes:
        ns.__enter__()
    try:
        return _run(case, ctx, fam, impl)
    finally:
        for ns in nodes:
            ns.__exit__(None, None, None)


def _run(case, ctx, fam, impl):
    ws = case['w']
    isf = fam[1] == 'F'
    one = 1.0 if isf else 1
    w1 = ws[0] if len(ws) >= 1 else one
    w2 = ws[1] if len(ws) >= 2 else one
    set_cls = F.cls(fam, 'Set', impl)
    bucket_cls = F.cls(fam, 'Bucket', impl)
    classes = ['impl:' + impl, 'fam:' + fam]
    nontrivial = False
    for name in ('weightedUnion', 'weightedIntersection'):
        f = F.fn(fam, name, impl)
        a, ma, amap = build(fam, impl, case['a'])
        b, mb, bmap = build(fam, impl, case['b'])
        a0 = None if a is None else (list(a.items()) if amap else list(a))
        b0 = None if b is None else (list(b.items()) if bmap else list(b))
        sig = {'impl': impl, 'fn': name, 'a_kind': case['a']['kind'], 'b_kind': case['b']['kind'], 'nweights': len(ws)}
        desc = '%s(%s %r/%r, %s %r/%r%s) on %s(%s)' % (
            name, case['a']['kind'], case['a']['keys'], case['a']['vals'] if amap else None,
            case['b']['kind'], case['b']['keys'], case['b']['vals'] if bmap else None,
            ''.join(', %r' % w for w in ws), fam, impl)
        try:
            r = f(a, b, *ws)
        except Exception as e:
            ctx.mismatch('%s raised %s: %s' % (desc, type(e).__name__, e), dict(sig, what='raised:' + type(e).__name__))
            continue
        if not (isinstance(r, tuple) and len(r) == 2):
            raise Violation('%s returned %r, not a (weight, result) pair' % (desc, r), dict(sig, what='shape'))
        rw, rc = r
        # None short-circuits
        if a is None or b is None:
            if a is None and b is None:
                want = (0, None)
            elif a is None:
                want = (w2, b)
            else:
                want = (w1, a)
            if rc is not want[1] or rw != want[0]:
                ctx.mismatch('%s returned (%r, %r), documented (%r, <that operand>)' % (desc, rw, rc, want[0]),
                             dict(sig, what='none-operand'))
            classes.append('none_operand')
            continue
        both_sets = not amap and not bmap
        if name == 'weightedUnion':
            keys = sorted(set(ma) | set(mb), key=F.sortkey)
            want_w = 1
        else:
            keys = sorted(set(ma) & set(mb), key=F.sortkey)
            want_w = (w1 + w2) if both_sets else 1
        if both_sets:
            want_items = keys
            want_cls = set_cls
            got_items = list(rc)
        else:
            want_items = [(k, ma.get(k, 0) * w1 + mb.get(k, 0) * w2) for k in keys]
            want_cls = bucket_cls
            got_items = list(rc.items()) if hasattr(rc, 'items') else list(rc)
        if type(rc) is not want_cls:
            ctx.mismatch('%s: result is a %s, documented: %s' % (desc, type(rc).__name__, want_cls.__name__),
                         dict(sig, what='result-kind'))
        if got_items != want_items:
            ctx.mismatch('%s: result %r, documented formula gives %r' % (desc, got_items, want_items),
                         dict(sig, what='contents'))
        if rw != want_w:
            ctx.mismatch('%s: returned weight %r, documented %r' % (desc, rw, want_w), dict(sig, what='weight'))
        if rc is a or rc is b:
            ctx.mismatch('%s: the result is one of the operands' % desc, dict(sig, what='not-new'))
        a1 = list(a.items()) if amap else list(a)
        b1 = list(b.items()) if bmap else list(b)
        if a1 != a0 or b1 != b0:
            ctx.mismatch('%s: an operand was modified' % desc, dict(sig, what='operand-modified'))
        classes.append('%s:%s/%s' % (name, 'map' if amap else 'set', 'map' if bmap else 'set'))
        if amap != bmap and len(ws) == 2 and w1 != w2 and (set(ma) & set(mb)) and (w1 != one or w2 != one):
            nontrivial = True
    return nontrivial, classes
