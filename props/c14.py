"""C14 - an exception raised by a key comparison leaves the container intact.

Fault enumeration: for every probe operation of a generated case the comparisons it performs are
counted on a clone (N), then the operation is re-run on a fresh clone for EVERY n in 1..N with the
n-th comparison raising ``Boom``.
"""
from vlib import families as F
from vlib import faults

ID = 'C14'
LEVEL = 'fault_enumeration'
TECHNIQUE = ('fault enumeration over generated histories: Hypothesis generates a tree-building history and a '
             'list of probe operations (lookups, inserts, replaces, deletes, pops, range searches, min/maxKey, '
             'set algebra, weighted set operations, in-place set operators, update, constructors, conflict merges) '
             'over object-keyed containers whose keys are probe objects with hooked comparisons; for each probe '
             'the number N of key comparisons is counted on a clone and the probe is then re-run on a fresh clone '
             'for every n in 1..N with the n-th comparison raising; oracle: the injected exception reaches the '
             'caller, _check() and an independent structure walk pass, contents are exactly the previous ones or '
             'the completed change (per element for bulk operations), a follow-up workload agrees with the '
             'reference model and (C) every key / value reference count equals the number of slots holding the '
             'object; the C side runs under ASan/UBSan with asserts enabled; '
             'every conflict-merge triple over a 3-key universe (thorough: 4) with every comparison failed in turn')
RULE = ('a case is a configuration + build history + probe list; every (probe, n) pair is one fault injection.  '
        'evaluations = fault injections executed (+1 per case for the fault-free counting pass).  Non-trivial '
        'injection: the probe mutates, or n >= 2 (the fault fell after at least one successful comparison), on a '
        'container with >= 2 entries.  Distinct: injections of one case are distinct by construction (probe index, '
        'n); injections of a case whose JSON was already seen in the shard are not counted again.')
ASSUMPTIONS = ['O-key families only (comparisons of the other families cannot raise)',
               'the injected exception is a private Exception subclass raised from __lt__/__gt__/__eq__/... of '
               'the key class at the n-th call counted over all probe keys (stored keys, arguments, operands)',
               'bulk operations (update, |=, &=, -=, ^=, constructors) are required to be atomic per element, '
               'not as a whole: after a fault the contents must lie between the previous contents and the '
               'completed change and every element is either fully applied or not at all',
               'reference-count equation (C only): getrefcount - harness references == slots found by walking '
               '__getstate__',
               'sanitizer build (gcc ASan+UBSan, -UNDEBUG, PYTHONMALLOC=malloc) for the C side, normal build '
               'for the Python side']

FAMS = ['OO', 'OI', 'OL', 'OU', 'OQ']


def shards(tier, seed):
    n = {'quick': 14, 'thorough': 250}[tier]
    out = []
    for i in range(16):
        impl = 'c' if i % 8 < 5 else 'py'
        sh = {'n': n, 'impl': impl, 'fams': F.rotate(['OO', 'OO'] + FAMS, seed + i, 3)}
        if impl == 'c':
            sh['variant'] = 'san'
        out.append(sh)
    # bounded-exhaustive conflict merges: every triple of subsets of a 3-key universe (thorough: 4 keys) for one
    # (family, kind) slice per shard, every comparison of every merge failed in turn
    kinds = ['Bucket', 'Set', 'BTree', 'TreeSet']
    for i, sh in enumerate(out):
        fam = FAMS[(seed + i // 4) % len(FAMS)]
        sh['enum_merge'] = {'cfg': {'fam': fam, 'kind': kinds[i % 4], 'impl': sh['impl'], 'sizes': None},
                            'universe': 3 if tier == 'quick' else 4}
    return out


# ----------------------------------------------------------------------------- generation

def _cases(shard):
    from hypothesis import strategies as st

    @st.composite
    def case(draw):
        fam = draw(st.sampled_from(shard['fams']))
        kind = draw(st.sampled_from(['BTree', 'BTree', 'TreeSet', 'Bucket', 'Set']))
        sizes = draw(st.sampled_from([[2, 2], [3, 2], [2, 3], [3, 3], [2, 2], [3, 3], [4, 3], [5, 4], None]))
        is_map = F.is_map(kind)
        numeric = is_map and fam[1] != 'O'
        K = st.integers(0, 24)
        V = st.integers(0, 5)
        fresh = st.booleans()
        op = lambda *a: st.tuples(*[st.just(x) if isinstance(x, str) else x for x in a]).map(list)
        B = st.one_of(st.none(), K, st.builds(lambda i, l: {'edge': i, 'last': l}, st.integers(0, 12), st.booleans()))
        okinds = ['Set', 'TreeSet', 'list'] + (['Bucket', 'BTree'] if is_map else [])
        ks = st.lists(K, max_size=7)
        if is_map:
            probes = [op('set', K, V, fresh), op('set', K, V, fresh), op('setdefault', K, V, fresh),
                      op('del', K, fresh), op('del', K, fresh), op('pop', K, fresh), op('popd', K, fresh),
                      op('popitem'), op('get', K, fresh), op('getitem', K, fresh),
                      op('update', st.lists(st.tuples(K, V).map(list), max_size=5),
                         st.sampled_from(['pairs', 'dict', 'Bucket', 'BTree'])),
                      op('ctor', st.lists(st.tuples(K, V).map(list), max_size=6),
                         st.sampled_from(['pairs', 'Bucket', 'BTree']))]
            if kind == 'BTree':
                probes.append(op('insert', K, V, fresh))
            if numeric:
                probes += [op('weighted', st.sampled_from(['weightedUnion', 'weightedIntersection']), ks,
                              st.sampled_from(['Set', 'TreeSet', 'Bucket', 'BTree']), st.integers(0, 3),
                              st.integers(0, 3), st.booleans())] * 2
        else:
            probes = [op('add', K, fresh), op('add', K, fresh), op('remove', K, fresh), op('discard', K, fresh),
                      op('popmin'), op('update', ks, st.sampled_from(['list', 'Set', 'TreeSet'])),
                      op('ior', ks, st.sampled_from(['list', 'Set', 'TreeSet'])),
                      op('iand', ks, st.sampled_from(['list', 'Set', 'TreeSet'])),
                      op('isub', ks, st.sampled_from(['list', 'Set', 'TreeSet'])),
                      op('ixor', ks, st.sampled_from(['list', 'Set', 'TreeSet'])),
                      op('isdisjoint', ks, st.sampled_from(['list', 'Set', 'TreeSet'])),
                      op('ctor', ks, st.sampled_from(['list', 'Set', 'TreeSet']))]
            if kind == 'TreeSet':
                probes.append(op('insert', K, fresh))
        meths = ['keys'] + (['values', 'items', 'iterkeys', 'iteritems'] if is_map else [])
        probes += [op('in', K, fresh), op('has_key', K, fresh),
                   op('range', st.sampled_from(meths), B, B, st.booleans(), st.booleans(),
                      st.sampled_from(['list', 'len', 'ends'])),
                   op('range', st.sampled_from(meths), B, B, st.booleans(), st.booleans(),
                      st.sampled_from(['list', 'len', 'ends'])),
                   op('minKey', B), op('maxKey', B),
                   op('algebra', st.sampled_from(['union', 'intersection', 'difference', 'or', 'and', 'sub']
                                                 + ([] if is_map else ['xor'])),
                      ks, st.sampled_from(okinds), st.booleans()),
                   op('algebra', st.sampled_from(['union', 'intersection', 'difference', 'or', 'and', 'sub']),
                      ks, st.sampled_from(okinds), st.booleans()),
                   op('merge', st.lists(K, max_size=5), st.lists(K, max_size=5), st.lists(K, max_size=5),
                      st.sampled_from(['leaf', 'tree']), st.integers(0, 2))]
        fill = draw(st.one_of(st.integers(0, 3), st.integers(4, 22), st.integers(8, 22)))
        start = draw(st.integers(0, 10))
        step = draw(st.sampled_from([1, 1, 2]))
        build = [(['set', start + j * step, j % 6] if is_map else ['add', start + j * step]) for j in range(fill)]
        thin = draw(st.lists(st.one_of(op('rm', K), op('rm', K), (op('set', K, V) if is_map else op('add', K))),
                             max_size=10))
        cfg = {'fam': fam, 'kind': kind, 'impl': shard['impl']}
        if kind in F.TREE_KINDS:
            cfg['sizes'] = sizes
        return {'cfg': cfg, 'build': build + thin, 'probes': draw(st.lists(st.one_of(*probes), min_size=3, max_size=9))}

    return case()


def run_case(case, ctx):
    return faults.run_case(case, ctx, faults.CmpFault)


def run_shard(shard, ctx):
    if not ctx.hyp(_cases(shard), run_case, shard['n'], 'boom'):
        return
    em = shard.get('enum_merge')
    if em:
        n = 0
        for case in faults.merge_enum_cases(em['cfg'], em['universe']):
            n += len(case['probes'])
            if not ctx.run_case(case, run_case):
                return
        ctx.count('enumerated_merge_triples', n)


def replay(case, ctx):
    run_case(case, ctx)
