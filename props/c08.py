"""C08 - concurrent transactions on a tree merge, serialize or conflict - nothing else."""
from vlib import families as F
from vlib import minizodb as Z
from vlib import walker
from vlib.runner import Violation

ID = 'C08'
LEVEL = 'exploration'
TECHNIQUE = ('generated two-transaction schedules on a mini-ZODB: a Hypothesis-generated committed base '
             'tree (tiny node sizes), two connections on the same snapshot each running a short generated '
             'transaction biased towards structural-vs-leaf-local pairs at the same leaf boundary, serial '
             'commits in a generated order; the stored result is reloaded by a fresh connection and '
             'compared with the two admissible outcomes (serial execution / disjoint three-way merge), '
             'checked by _check()/check()/walker; the connection log is checked for the read-dependency '
             'declarations of every write and their absence for pure reads; in addition a bounded-exhaustive '
             'enumeration of duels on one leaf: every subset (size 1..2) of ten leaf-targeted primitives (delete / '
             'replace the first, a middle, the last key; insert right before the first, right after the first, '
             'after the last key; empty the leaf) on one side against every single primitive (thorough: also ten '
             'pairs) on the other, on every leaf of small stored trees, both commit orders, both implementations; '
             'a third of the transactions (one side of every duel) run cold: the cache is swept before every call')
RULE = ('a case is (configuration, base fill, thinning, transaction A, transaction B, commit order).  '
        'Non-trivial: both transactions changed something and conflict resolution or a read-dependency '
        'check actually ran (the second committer had a stale object).  Distinct = distinct case JSON.')
ASSUMPTIONS = ['a third of the generated transactions (and one side of every enumerated duel) run "cold": the '
               'connection\'s cache is swept before every call, so writes descend through ghosts',
               'vlib/minizodb.py models ZODB optimistic concurrency: per-object serial check, '
               'tryToResolveConflict with shared reference stubs, readCurrent verification at commit',
               'two transactions, serial commits; the harness owns the schedule (no threads)',
               'transactions use non-raising operations (set, pop with default, setdefault, update, clear, add, discard)']


def shards(tier, seed):
    n = {'quick': 260, 'thorough': 6000}[tier]
    out = [{'n': n, 'fams': F.rotate(F.FAMILIES, seed * 3 + i * 4, 6 if tier == 'quick' else 22)}
           for i in range(16)]
    # enumerated duels on one leaf (see _duels): 1 family per shard in the quick tier, all 22 in thorough
    fams = F.rotate(F.FAMILIES, seed * 5, 5 if tier == 'quick' else 22)
    if tier == 'quick':
        # always: one family with byte-string values (fs: compared with memcmp), one with float values, one with
        # object values; the other two rotate
        fixed = ['fs', ['IF', 'LF', 'QF', 'UF'][seed % 4], ['IO', 'LO', 'OO', 'QO', 'UO'][seed % 5]]
        fams = fixed + [f for f in fams if f not in fixed][:2]
    out += [{'mode': 'duel', 'fams': [f], 'tier': tier} for f in fams]
    return out


PRIMS = ['del_leaf_first', 'del_leaf_mid', 'del_leaf_last', 'rep_leaf_first', 'replace_in_leaf', 'rep_leaf_last',
         'ins_before_first', 'ins_after_first', 'ins_after_last', 'empty_leaf']
WITH_VALUE = ('rep_leaf_first', 'replace_in_leaf', 'rep_leaf_last', 'ins_before_first', 'ins_after_first',
              'ins_after_last')


def _duels(fam, tier):
    """Bounded-exhaustive duels on ONE leaf of a small stored tree: side A runs every subset of size 1..2 of
    the ten leaf-targeted primitives (delete / replace the first, a middle, the last key; insert right
    before the first, right after the first, after the last key; empty the leaf), side B every single
    primitive (thorough: also every pair), on every leaf, both commit orders, both implementations."""
    import itertools
    dom = [x for x in F.domain(fam, 'int') if x is not None]
    dom = [x for x in dom if not isinstance(x, int) or abs(x) < 1000] or dom
    a_sets = [list(c) for r in (1, 2) for c in itertools.combinations(PRIMS, r)]
    b_sets = [[p] for p in PRIMS]
    if tier == 'thorough':
        # singles + every pair of the first five primitives (the full 55 x 55 grid takes hours)
        b_sets = [[p] for p in PRIMS] + [list(c) for c in itertools.combinations(PRIMS[:5], 2)]
    shapes = (([3, 2], 2, 8), ([4, 3], 2, 11)) if tier == 'quick' else (([3, 2], 2, 8), ([4, 3], 2, 11), ([3, 3], 3, 7),
                                                                      ([2, 2], 2, 7), ([5, 4], 2, 14))

    def mk(ops, i):
        return [[o, i] + ([1] if o in WITH_VALUE else []) for o in ops]
    for kind in ('BTree', 'TreeSet'):
        for impl in ('c', 'py'):
            for sizes, step, length in shapes:
                base = [dom[(1 + j * step) % len(dom)] for j in range(length)]
                for i in range(3 if tier == 'quick' else 4):
                    for ta in a_sets:
                        for tb in b_sets:
                            for a_first in (True, False):
                                yield {'cfg': {'fam': fam, 'kind': kind, 'impl': impl, 'ktype': 'int', 'sizes': sizes},
                                       'base': base, 'basev': 0, 'thin': [], 'ta': mk(ta, i), 'tb': mk(tb, i),
                                       'a_first': a_first, 'cold_a': a_first, 'cold_b': not a_first}


def _cases(shard):
    from hypothesis import strategies as st

    @st.composite
    def case(draw):
        fam = draw(st.sampled_from(shard['fams']))
        kind = draw(st.sampled_from(['BTree', 'BTree', 'TreeSet', 'TreeSet', 'Bucket', 'Set']))
        impl = draw(st.sampled_from(['c', 'py']))
        sizes = draw(st.sampled_from([[2, 2], [2, 2], [3, 2], [2, 3], [3, 3], [3, 3], [4, 3], [5, 4], None]))
        ktype = draw(st.sampled_from(['int', 'int', 'str'])) if fam[0] == 'O' else 'int'
        dom = [x for x in F.domain(fam, ktype)]
        n = len(dom)
        is_map = F.is_map(kind)
        V = F.value_tokens(fam) if is_map else st.none()
        start = draw(st.integers(0, n - 1))
        step = draw(st.sampled_from([1, 2, 2, 3]))
        length = draw(st.one_of(st.integers(0, 6), st.integers(5, 26), st.integers(5, 26)))
        base = [dom[(start + j * step) % n] for j in range(length)]
        thin = draw(st.lists(st.sampled_from(dom), max_size=6))
        K = st.sampled_from(dom)
        leaf_i = st.integers(0, 8)

        def txn():
            op = st.one_of(
                st.tuples(st.just('set'), K, V), st.tuples(st.just('set'), K, V),
                st.tuples(st.just('del'), K), st.tuples(st.just('del'), K),
                st.tuples(st.just('setdefault'), K, V),
                st.tuples(st.just('del_leaf_first'), leaf_i),
                st.tuples(st.just('del_leaf_last'), leaf_i),
                st.tuples(st.just('empty_leaf'), leaf_i),
                st.tuples(st.just('grow_leaf'), leaf_i, V),
                st.tuples(st.just('ins_after_first'), leaf_i, V),
                st.tuples(st.just('ins_before_first'), leaf_i, V),
                st.tuples(st.just('ins_after_last'), leaf_i, V),
                st.tuples(st.just('rep_leaf_first'), leaf_i, V), st.tuples(st.just('rep_leaf_last'), leaf_i, V),
                st.tuples(st.just('del_leaf_mid'), leaf_i),
                st.tuples(st.just('replace_in_leaf'), leaf_i, V),
                st.tuples(st.just('clear')),
                st.tuples(st.just('update'), st.lists(st.tuples(K, V).map(list), max_size=4)),
                st.tuples(st.just('read'), K),
                st.tuples(st.just('scan')),
            ).map(list)
            return draw(st.lists(op, min_size=1, max_size=4))
        cfg = {'fam': fam, 'kind': kind, 'impl': impl, 'ktype': ktype}
        if kind in F.TREE_KINDS:
            cfg['sizes'] = sizes
        ta, tb = txn(), txn()
        if draw(st.integers(0, 3)) == 0:
            # a duel on ONE leaf: one side removes the leaf's smallest key (which rewrites the separator
            # above it), the other works in the same leaf - inserts right after / before that key, deletes or
            # replaces other keys of the leaf - in every combination and both commit orders
            i = draw(leaf_i)
            v = draw(V)
            local = [['ins_after_first', i, v], ['ins_before_first', i, v], ['del_leaf_last', i],
                     ['replace_in_leaf', i, v], ['grow_leaf', i, v]]
            ta = draw(st.lists(st.sampled_from(local), min_size=1, max_size=3, unique_by=lambda o: o[0]))
            tb = draw(st.sampled_from([[['del_leaf_first', i]], [['del_leaf_first', i], ['ins_after_first', i, v]],
                                       [['empty_leaf', i]], [['del_leaf_first', i], ['del_leaf_last', i]]]))
        return {'cfg': cfg, 'base': base, 'basev': draw(V), 'thin': thin, 'ta': ta, 'tb': tb,
                'a_first': draw(st.booleans()), 'cold_a': draw(st.integers(0, 2)) == 0,
                'cold_b': draw(st.integers(0, 2)) == 0}

    return case()


def run_shard(shard, ctx):
    if shard.get('mode') == 'duel':
        for fam in shard['fams']:
            for case in _duels(fam, shard.get('tier', 'quick')):
                if not ctx.run_case(case, run_case):
                    return
        return
    ctx.hyp(_cases(shard), run_case, shard['n'], 'pairs')


def replay(case, ctx):
    run_case(case, ctx)


# ----------------------------------------------------------------------------- one side

class Side:
    def __init__(self, name, conn, t, model, cfg, dom):
        self.name, self.conn, self.t, self.cfg = name, conn, t, cfg
        self.model = dict(model)
        self.fam, self.kind = cfg['fam'], cfg['kind']
        self.is_map = F.is_map(self.kind)
        self.is_tree = F.is_tree(self.kind)
        self.dom = dom
        self.concrete = []      # (name, key, value) as executed
        self.cold = False       # sweep the connection's cache right before every call (the call starts on ghosts)
        self.wrote = False
        self.log_violation = None
        self.classes = set()

    def _leaves(self):
        if not self.is_tree:
            ks = sorted(self.model, key=F.sortkey)
            return [ks] if ks else []
        w = walker.walk(self.t, self.is_map, check=False)
        return [lf.keys for lf in w.leaves]

    def _w(self, name, k=None, v=None, pairs=None):
        """one primitive write/read with log inspection"""
        t, m = self.t, self.model
        path = None
        conn = self.conn
        if self.is_tree and name in ('set', 'del', 'setdefault'):
            nodes = walker.descent_path(t, k)
            path = [n for n in nodes if n._p_oid is not None and n._p_serial != Z.Z64 and not n._p_changed]
        if self.cold:
            conn.minimize()         # unchanged nodes become ghosts; the call has to load what it touches
            self.classes.add('cold_call')
        mark = len(conn.log)
        before = dict(m)
        if name == 'set':
            if self.is_map:
                t[k] = v
                m[k] = v
            else:
                t.add(k)
                m[k] = None
        elif name == 'del':
            if self.is_map:
                t.pop(k, None)
            else:
                t.discard(k)
            m.pop(k, None)
        elif name == 'setdefault':
            if self.is_map:
                t.setdefault(k, v)
                m.setdefault(k, v)
            else:
                t.add(k)
                m.setdefault(k, None)
        elif name == 'clear':
            t.clear()
            m.clear()
        elif name == 'update':
            if self.is_map:
                t.update(pairs)
                m.update(pairs)
            else:
                t.update([p[0] for p in pairs])
                m.update((p[0], None) for p in pairs)
        elif name == 'read':
            r1 = k in t
            if r1 != (k in m):
                raise Violation('connection %s: %r in tree is %r, model %r' % (self.name, k, r1, k in m),
                                {'what': 'in-txn-read'})
            if self.is_map:
                t.get(k)
            t.has_key(k)
            if m:
                t.minKey()
                t.maxKey(k) if F.sortkey(k) >= F.sortkey(min(m, key=F.sortkey)) else None
        elif name == 'scan':
            got = list(t.items()) if self.is_map else list(t)
            ks = sorted(m, key=F.sortkey)
            want = [(x, m[x]) for x in ks] if self.is_map else ks
            if got != want:
                raise Violation('connection %s: in-transaction scan %r, model %r' % (self.name, got, want),
                                {'what': 'in-txn-read'})
            len(t)
            list(t.keys(ks[0])) if ks and ks[0] is not None else None
        entries = conn.log[mark:]
        self.concrete.append([name, k, v, pairs])
        changed = m != before
        if changed:
            self.wrote = True
        if name in ('read', 'scan'):
            bad = [e for e in entries if e[0] in ('readCurrent', 'register')]
            if bad and self.log_violation is None:
                self.log_violation = ('pure read %s(%r) on connection %s declared %r'
                                      % (name, k, self.name, bad), {'what': 'read-declares', 'op': name})
            self.classes.add('pure_read_checked')
        elif path is not None and changed:
            declared = set(e[1] for e in entries if e[0] == 'readCurrent')
            missing = [n for n in path if n._p_oid not in declared]
            if missing and self.log_violation is None:
                self.log_violation = ('write %s(%r) on connection %s descended through %d stored interior '
                                      'node(s) without declaring a read dependency (declared %d of %d)'
                                      % (name, k, self.name, len(missing), len(path) - len(missing), len(path)),
                                      {'what': 'missing-readCurrent', 'op': name})
            if path:
                self.classes.add('readCurrent_checked')

    def run(self, ops):
        fam = self.fam
        for op in ops:
            name = op[0]
            if name in ('set', 'setdefault'):
                self._w(name, F.dk(fam, op[1]), F.dv(fam, op[2]) if self.is_map else None)
            elif name in ('del', 'read'):
                self._w(name, F.dk(fam, op[1]))
            elif name in ('clear', 'scan'):
                self._w(name)
            elif name == 'update':
                self._w('update', pairs=[(F.dk(fam, a), F.dv(fam, b) if self.is_map else None) for a, b in op[1]])
            else:
                leaves = self._leaves()
                if not leaves:
                    continue
                lf = leaves[op[1] % len(leaves)]
                self.classes.add(name)
                if name == 'del_leaf_first':
                    self._w('del', lf[0])
                elif name == 'del_leaf_last':
                    self._w('del', lf[-1])
                elif name == 'del_leaf_mid':
                    if len(lf) > 2:
                        self._w('del', lf[len(lf) // 2])
                elif name in ('rep_leaf_first', 'rep_leaf_last'):
                    self._w('set', lf[0] if name == 'rep_leaf_first' else lf[-1],
                            F.dv(fam, op[2]) if self.is_map else None)
                elif name == 'ins_after_last':
                    i = leaves.index(lf)
                    lo = F.sortkey(lf[-1])
                    hi = F.sortkey(leaves[i + 1][0]) if i + 1 < len(leaves) else None
                    for tok in self.dom:
                        k = F.dk(fam, tok)
                        if k not in self.model and F.sortkey(k) > lo and (hi is None or F.sortkey(k) < hi):
                            self._w('set', k, F.dv(fam, op[2]) if self.is_map else None)
                            break
                elif name == 'empty_leaf':
                    for k in list(lf):
                        self._w('del', k)
                elif name == 'replace_in_leaf':
                    self._w('set', lf[len(lf) // 2], F.dv(fam, op[2]) if self.is_map else None)
                elif name in ('ins_after_first', 'ins_before_first'):
                    # a new key in the gap right after (before) the leaf's smallest key
                    lo = F.sortkey(lf[0])
                    hi = F.sortkey(lf[1]) if len(lf) > 1 else None
                    prev = None
                    if name == 'ins_before_first':
                        i = leaves.index(lf)
                        prev = F.sortkey(leaves[i - 1][-1]) if i > 0 else None
                    for tok in self.dom:
                        k = F.dk(fam, tok)
                        if k in self.model:
                            continue
                        sk = F.sortkey(k)
                        if name == 'ins_after_first' and sk > lo and (hi is None or sk < hi):
                            self._w('set', k, F.dv(fam, op[2]) if self.is_map else None)
                            break
                        if name == 'ins_before_first' and sk < lo and (prev is None or sk > prev):
                            self._w('set', k, F.dv(fam, op[2]) if self.is_map else None)
                            break
                elif name == 'grow_leaf':
                    # insert domain keys that fall inside / right after this leaf
                    toks = [F.ek(fam, k) for k in lf]
                    lo, hi = F.sortkey(lf[0]), F.sortkey(lf[-1])
                    n = 0
                    for tok in self.dom:
                        k = F.dk(fam, tok)
                        if k not in self.model and lo <= F.sortkey(k) and n < 3:
                            self._w('set', k, F.dv(fam, op[2]) if self.is_map else None)
                            n += 1


def _apply(model, concrete, is_map):
    m = dict(model)
    for name, k, v, pairs in concrete:
        if name == 'set':
            m[k] = v if is_map else None
        elif name == 'del':
            m.pop(k, None)
        elif name == 'setdefault':
            m.setdefault(k, v if is_map else None)
        elif name == 'clear':
            m.clear()
        elif name == 'update':
            for a, b in pairs:
                m[a] = b if is_map else None
    return m


_MISSING = object()


def _delta(base, m):
    d = {}
    for k in set(base) | set(m):
        a, b = base.get(k, _MISSING), m.get(k, _MISSING)
        if a is _MISSING or b is _MISSING:
            if a is not b:
                d[k] = b
        elif not (a == b):
            d[k] = b
    return d


def run_case(case, ctx):
    from BTrees import check as bcheck
    cfg = case['cfg']
    fam, kind, impl = cfg['fam'], cfg['kind'], cfg['impl']
    is_map, is_tree = F.is_map(kind), F.is_tree(kind)
    klass = F.cls(fam, kind, impl)
    ktype = cfg.get('ktype', 'int')
    dom = F.domain(fam, ktype)
    with F.NodeSizes(klass, tuple(cfg['sizes']) if cfg.get('sizes') else None):
        sto = Z.Storage()
        c0 = Z.Connection(sto)
        t = klass()
        c0.add(t)
        model = {}
        bv = F.dv(fam, case['basev']) if is_map else None
        for tok in case['base']:
            k = F.dk(fam, tok)
            if is_map:
                t[k] = bv
            else:
                t.add(k)
            model[k] = bv
        c0.commit()         # all nodes get oids
        for tok in case['thin']:
            k = F.dk(fam, tok)
            if is_map:
                t.pop(k, None)
            else:
                t.discard(k)
            model.pop(k, None)
        c0.commit()
        oid = t._p_oid
        base_ws = walker.walk(t, is_map, check=False) if is_tree else None
        height = base_ws.height if base_ws else 1
        ca, cb = Z.Connection(sto), Z.Connection(sto)
        A = Side('A', ca, ca.get(oid), model, cfg, dom)
        B = Side('B', cb, cb.get(oid), model, cfg, dom)
        A.cold = bool(case.get('cold_a'))
        B.cold = bool(case.get('cold_b'))
        A.run(case['ta'])
        B.run(case['tb'])
        sig = {'impl': impl, 'kind': kind}
        for s in (A, B):
            if s.log_violation:
                ctx.mismatch('%s%s(%s): %s' % (fam, kind, impl, s.log_violation[0]),
                             dict(sig, **s.log_violation[1]))
        first, second = (A, B) if case['a_first'] else (B, A)
        f16 = False
        if is_tree:
            for s in (first, second):
                f16 = f16 or walker.f16_pending(walker.walk(s.t, is_map, check=False))
        sig['f16shape'] = f16
        try:
            first.conn.commit()
        except Z.ConflictError as e:
            raise Violation('the first committer got a conflict: %r' % (e,), dict(sig, what='first-conflict'))
        resolved_before = sto.resolved
        try:
            second.conn.commit()
            outcome = 'committed'
        except Z.ConflictError as e:
            outcome = 'conflict:%s:%s' % (e.kind, e.reason)
        classes = ['kind:' + kind, 'impl:' + impl, 'height:%d' % min(height, 4),
                   'outcome:' + outcome.split(':')[0] + (':' + outcome.split(':')[1] if ':' in outcome else '')]
        classes += sorted(A.classes | B.classes)
        stale = bool(first.wrote and second.wrote)
        ran = sto.resolved > resolved_before or outcome.startswith('conflict')
        if sto.resolved > resolved_before:
            classes.append('resolution_merged')
        after_first = _apply(model, first.concrete, is_map)
        if outcome == 'committed':
            serial = _apply(after_first, second.concrete, is_map)
            da, db = _delta(model, first.model), _delta(model, second.model)
            admissible = [serial]
            if not (set(da) & set(db)):
                merged = dict(model)
                for d in (da, db):
                    for k, v in d.items():
                        if v is _MISSING:
                            merged.pop(k, None)
                        else:
                            merged[k] = v
                admissible.append(merged)
            want_models = admissible
        else:
            want_models = [after_first]
        r = Z.Connection(sto)
        rt = r.get(oid)
        what = ('%s%s(%s) sizes %s, base %r; first %s ran %r, then %s ran %r -> %s'
                % (fam, kind, impl, cfg.get('sizes'), sorted(model, key=F.sortkey),
                   first.name, first.concrete, second.name, second.concrete, outcome))
        try:
            got = dict(rt.items()) if is_map else dict((k, None) for k in rt)
            listing = list(rt.keys())
        except Exception as e:
            ctx.mismatch('%s: the stored tree cannot be listed: %s: %s' % (what, type(e).__name__, e),
                         dict(sig, what='reader-raises'), recoverable=False)
        if listing != sorted(got, key=F.sortkey) or len(listing) != len(got):
            ctx.mismatch('%s: the stored tree lists %r (an entry appears twice or out of order)' % (what, listing),
                         dict(sig, what='reader-order'), recoverable=False)
        if not any(got == w for w in want_models):
            ctx.mismatch('%s: stored contents %r; admissible: %r'
                         % (what, sorted(got.items(), key=lambda kv: F.sortkey(kv[0])),
                            [sorted(w.items(), key=lambda kv: F.sortkey(kv[0])) for w in want_models]),
                         dict(sig, what='contents', outcome=outcome.split(':')[0]), recoverable=False)
        if is_tree:
            try:
                rt._check()
                bcheck.check(rt)
                walker.walk(rt, is_map)
            except (AssertionError, walker.WalkError) as e:
                ctx.mismatch('%s: the stored tree is not sound: %s: %s' % (what, type(e).__name__, e),
                             dict(sig, what='reader-unsound'), recoverable=False)
            # every key reachable by lookup (an unreachable key is what a missed conflict produces)
            for k in got:
                if k not in rt:
                    ctx.mismatch('%s: key %r is listed but cannot be looked up' % (what, k),
                                 dict(sig, what='unreachable-key'), recoverable=False)
        return (stale and ran), classes
