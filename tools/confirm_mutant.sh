#!/bin/sh
# usage: tools/confirm_mutant.sh <name> <property> <patch.diff> <demo.py> <notes.md>
# Confirms a seeded change in a scratch worktree of /repo's HEAD (outside /repo and /verif):
#   demo passes on the unchanged tree, patch applies, builds, the pinned test suite passes,
#   demo fails with the change.  On success copies everything to /verif/seeded/<name>/.
set -u
name="$1"; prop="$2"; patch="$3"; demo="$4"; notes="$5"
wt=/tmp/confirm_$name
git -C /repo worktree remove --force $wt 2>/dev/null
git -C /repo worktree add -q --detach $wt HEAD || exit 2
cleanup() { git -C /repo worktree remove --force $wt; }
trap cleanup EXIT INT TERM
cd $wt
BTREES_VERIF=${HOOK:-0} /venv/bin/python setup.py -q build_ext -i -f -j16 >/dev/null 2>&1 || { echo "baseline build failed"; exit 2; }
PYTHONPATH=$wt/src /venv/bin/python "$demo" >/tmp/confirm_$name.base.log 2>&1; base=$?
git apply "$patch" || { echo "RESULT $name: patch does not apply to HEAD"; exit 1; }
BTREES_VERIF=${HOOK:-0} /venv/bin/python setup.py -q build_ext -i -f -j16 >/dev/null 2>&1 || { echo "RESULT $name: does not build"; exit 1; }
tests=$(PYTHONPATH=$wt/src /venv/bin/python -m pytest -q -p no:cacheprovider --timeout=900 src/BTrees 2>&1 | tail -1)
PYTHONPATH=$wt/src /venv/bin/python "$demo" >/tmp/confirm_$name.mut.log 2>&1; mut=$?
echo "RESULT $name: demo unchanged=$base, demo with change=$mut, tests: $tests"
case "$tests" in *failed*|*error*) echo "  -> rejected (suite fails)"; exit 1;; esac
if [ "$base" = 0 ] && [ "$mut" != 0 ]; then
  d=/verif/seeded/$name; mkdir -p $d
  cp "$patch" $d/patch.diff; cp "$demo" $d/demo.py; cp "$notes" $d/agent_notes.md
  tail -5 /tmp/confirm_$name.mut.log > $d/demo_output_with_change.txt
  cat > $d/meta.json <<EOM
{"name": "$name", "breaks_property": "$prop", "base_commit": "$(git -C /repo log -1 --format=%h)",
 "confirmed": {"demo_exit_unchanged": $base, "demo_exit_with_change": $mut, "test_suite_with_change": "$tests"},
 "ran": ["git apply patch.diff (scratch worktree of /repo HEAD)", "setup.py build_ext -i -f -j16", "pytest src/BTrees", "python demo.py"]}
EOM
  echo "  -> kept in $d"
else
  echo "  -> rejected"; exit 1
fi
