#!/bin/sh
# usage: tools/trymutant.sh <patch.diff> <ID> [<ID> ...]   - apply a seeded change to /repo, run the quick
# checks named, print one line per check, and always undo the change afterwards.
set -u
diff="$1"; shift
cd /verif
if ! git -C /repo diff --quiet; then echo "/repo has uncommitted changes; refusing"; exit 2; fi
git -C /repo apply "$diff" || { echo "patch does not apply"; exit 2; }
trap 'git -C /repo checkout -- . ; echo "(reverted)"' EXIT INT TERM
for id in "$@"; do
  out=$(VERIF_SEED=${VERIF_SEED:-1} ./check "$id" ${TIER:-quick} 2>&1); rc=$?
  echo "== $id rc=$rc :: $(echo "$out" | grep -c '^VIOLATION') violation line(s)"
  echo "$out" | grep -A1 '^VIOLATION' | head -4 | cut -c1-300
  echo "$out" | grep 'HARNESS' | head -2
done
