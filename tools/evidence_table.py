#!/venv/bin/python
"""tools/evidence_table.py [--design]  -  one line per check from evidence/*.json (tier, seed, evaluations, distinct
non-trivial, known-finding hits, wall time); --design embeds the table in DESIGN.md between the EVIDENCE markers."""
import json
import os
import sys

VERIF = os.path.dirname(os.path.dirname(os.path.abspath(__file__)))


def main():
    rows = ['| check | tier / seed | evaluations | distinct non-trivial | exhaustive part | known-finding hits | wall |',
            '|---|---|---|---|---|---|---|']
    for i in range(1, 20):
        pid = 'C%02d' % i
        e = json.load(open(os.path.join(VERIF, 'evidence', pid + '.json')))
        c = e['coverage']
        enum = sum(v for k, v in c['classes'].items() if k.startswith('enumerated_') and not k.startswith('enumerated_slice'))
        enum += c['classes'].get('viewgrid_queries', 0)
        rows.append('| %s | %s / %s | %d | %d | %s | %d | %.0f s |' % (
            pid, e['tier'], e['seed'], c['evaluations'], c['distinct_nontrivial'],
            ('%d enumerated' % enum) if enum else ('yes' if c.get('exhaustive') else '-'),
            sum(c.get('known_findings', {}).values()), e['wall_s']))
    table = '\n'.join(rows) + '\n'
    if '--design' in sys.argv:
        dp = os.path.join(VERIF, 'DESIGN.md')
        d = open(dp).read()
        a, b = d.index('<!-- EVIDENCE:BEGIN -->'), d.index('<!-- EVIDENCE:END -->')
        open(dp, 'w').write(d[:a] + '<!-- EVIDENCE:BEGIN -->\n' + table + d[b:])
    else:
        print(table)


if __name__ == '__main__':
    main()
