#!/venv/bin/python
"""tools/matrix.py [-j N] [--tier quick|thorough] [--seed S] [--checks "C01 C03"] [name ...]

Seeded-change matrix without touching /repo: for every seeded change (default: all of seeded/*) make a
scratch worktree of /repo's HEAD under /tmp/mx, apply the change there, and run the quick check of the
property it breaks (or the checks named with --checks) against that worktree (VERIF_REPO) with builds,
evidence and replays going to a scratch directory (VERIF_OUT).  Several changes run side by side.  One
line per change; worktree and output are removed afterwards.  Nothing here is a registered check.
"""
import argparse
import concurrent.futures
import json
import os
import shutil
import subprocess
import sys

VERIF = os.path.dirname(os.path.dirname(os.path.abspath(__file__)))
ROOT = '/tmp/mx'


def one(name, checks, tier, seed, nproc, keep):
    d = os.path.join(VERIF, 'seeded', name)
    meta = json.load(open(os.path.join(d, 'meta.json')))
    props = checks or [meta['breaks_property']]
    wt = os.path.join(ROOT, name)
    out = os.path.join(ROOT, name + '.out')
    subprocess.run(['git', '-C', '/repo', 'worktree', 'remove', '--force', wt], capture_output=True)
    shutil.rmtree(out, ignore_errors=True)
    p = subprocess.run(['git', '-C', '/repo', 'worktree', 'add', '-q', '--detach', wt, 'HEAD'],
                       capture_output=True, text=True)
    if p.returncode:
        return name, 'WORKTREE-FAILED ' + p.stderr.strip()
    res = []
    try:
        p = subprocess.run(['git', '-C', wt, 'apply', os.path.join(d, 'patch.diff')], capture_output=True, text=True)
        if p.returncode:
            return name, 'PATCH-DOES-NOT-APPLY'
        env = dict(os.environ, VERIF_REPO=wt, VERIF_OUT=out, VERIF_SEED=str(seed), VERIF_NPROC=str(nproc))
        for prop in props:
            p = subprocess.run([os.path.join(VERIF, 'check'), prop, tier], cwd=VERIF, env=env,
                               capture_output=True, text=True)
            text = p.stdout + p.stderr
            nv = sum(1 for ln in text.splitlines() if ln.startswith('VIOLATION'))
            harness = 'HARNESS-ERROR' in text
            first = ''
            lines = text.splitlines()
            for i, ln in enumerate(lines):
                if ln.startswith('VIOLATION'):
                    first = ' | '.join(x.strip() for x in lines[i + 1:i + 3])[:260]
                    break
            if harness:
                first = [ln for ln in lines if 'Error' in ln or 'error' in ln][-1:] or ['']
                first = str(first[0])[:260]
            res.append('%s rc=%d violations=%d%s%s' % (prop, p.returncode, nv, ' HARNESS-ERROR' if harness else '',
                                                        ('\n      ' + first) if first else ''))
            if keep:
                with open(os.path.join(ROOT, '%s.%s.log' % (name, prop)), 'w') as f:
                    f.write(text)
    finally:
        subprocess.run(['git', '-C', '/repo', 'worktree', 'remove', '--force', wt], capture_output=True)
        shutil.rmtree(wt, ignore_errors=True)
        shutil.rmtree(out, ignore_errors=True)
    return name, '; '.join(res)


def main():
    ap = argparse.ArgumentParser()
    ap.add_argument('-j', type=int, default=3)
    ap.add_argument('--tier', default='quick')
    ap.add_argument('--seed', default=os.environ.get('VERIF_SEED', '1'))
    ap.add_argument('--checks', default='')
    ap.add_argument('--nproc', type=int, default=16)
    ap.add_argument('--keep-logs', action='store_true')
    ap.add_argument('--record', action='store_true', help='merge the results into seeded/MATRIX.json')
    ap.add_argument('names', nargs='*')
    a = ap.parse_args()
    names = a.names or sorted(d for d in os.listdir(os.path.join(VERIF, 'seeded'))
                              if os.path.isdir(os.path.join(VERIF, 'seeded', d)))
    os.makedirs(ROOT, exist_ok=True)
    missed = 0
    record = {}
    head = subprocess.run(['git', '-C', VERIF, 'log', '-1', '--format=%h'], capture_output=True, text=True).stdout.strip()
    rhead = subprocess.run(['git', '-C', '/repo', 'log', '-1', '--format=%h'], capture_output=True, text=True).stdout.strip()
    with concurrent.futures.ThreadPoolExecutor(a.j) as ex:
        futs = [ex.submit(one, n, a.checks.split(), a.tier, a.seed, a.nproc, a.keep_logs) for n in names]
        for f in futs:
            name, line = f.result()
            if 'rc=1' not in line:
                missed += 1
            record[name] = {'result': line.split('\n')[0], 'first_violation': (line.split('\n      ') + [''])[1][:300],
                            'detected': 'rc=1' in line, 'tier': a.tier, 'seed': str(a.seed), 'verif_commit': head,
                            'repo_commit': rhead}
            try:
                print('%-8s %s' % (name, line), flush=True)
            except BrokenPipeError:
                pass
    subprocess.run(['git', '-C', '/repo', 'worktree', 'prune'])
    if a.record:
        path = os.path.join(VERIF, 'seeded', 'MATRIX.json')
        old = json.load(open(path)) if os.path.exists(path) else {}
        old.update(record)
        with open(path, 'w') as f:
            json.dump(old, f, indent=1, sort_keys=True)
            f.write('\n')
    try:
        print('%d change(s), %d not detected' % (len(names), missed))
    except BrokenPipeError:
        pass
    return 1 if missed else 0


if __name__ == '__main__':
    sys.exit(main())
