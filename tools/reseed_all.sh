#!/bin/sh
# usage: tools/reseed_all.sh [name ...]  - for every seeded change (default: all): does the patch still apply to
# /repo's HEAD, and does the quick check of the property it breaks report a violation?  One line per change.
# Applies each patch to /repo's working tree and always reverts it.
cd /verif
if ! git -C /repo diff --quiet; then echo "/repo has uncommitted changes; refusing"; exit 2; fi
names="$*"; [ -z "$names" ] && names=$(ls seeded)
for n in $names; do
  d=seeded/$n
  prop=$(/venv/bin/python -c "import json;print(json.load(open('$d/meta.json'))['breaks_property'])")
  if ! git -C /repo apply --check /verif/$d/patch.diff 2>/dev/null; then echo "$n $prop: PATCH-DOES-NOT-APPLY"; continue; fi
  git -C /repo apply /verif/$d/patch.diff
  out=$(VERIF_SEED=${VERIF_SEED:-1} ./check $prop quick 2>&1); rc=$?
  git -C /repo checkout -- .
  echo "$n $prop: rc=$rc violations=$(echo "$out" | grep -c '^VIOLATION') $(echo "$out" | grep -c HARNESS-ERROR | sed 's/^0$//;s/^[1-9].*/HARNESS-ERROR/')"
done
