#!/bin/sh
# usage: tools/reconfirm.sh <name> ...  - re-confirm seeded changes against /repo's HEAD without rewriting their meta.json:
# demo passes on the unchanged tree, patch applies and builds, the pinned suite passes, demo fails with the change.
for name in "$@"; do
  d=/verif/seeded/$name; wt=/tmp/reconfirm_$name
  git -C /repo worktree remove --force $wt 2>/dev/null
  git -C /repo worktree add -q --detach $wt HEAD || exit 2
  ( cd $wt
    BTREES_VERIF=${HOOK:-0} /venv/bin/python setup.py -q build_ext -i -f -j16 >/dev/null 2>&1
    PYTHONPATH=$wt/src /venv/bin/python $d/demo.py >/dev/null 2>&1; base=$?
    git apply $d/patch.diff || { echo "RESULT $name: patch does not apply"; exit; }
    BTREES_VERIF=${HOOK:-0} /venv/bin/python setup.py -q build_ext -i -f -j16 >/dev/null 2>&1 || { echo "RESULT $name: does not build"; exit; }
    tests=$(PYTHONPATH=$wt/src /venv/bin/python -m pytest -q -p no:cacheprovider --timeout=900 src/BTrees 2>&1 | tail -1)
    PYTHONPATH=$wt/src /venv/bin/python $d/demo.py >/dev/null 2>&1; mut=$?
    echo "RESULT $name: demo unchanged=$base, demo with change=$mut, tests: $tests" )
  git -C /repo worktree remove --force $wt
done
