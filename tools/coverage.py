#!/venv/bin/python
"""Measure which lines of the C templates (and of _base.py) the quick checks execute.

    tools/coverage.py [ID ...]        (default: every check in MANIFEST.json)

Builds /repo's working tree once with gcc --coverage into /verif/.build/cov, runs the named checks'
quick tiers against that build (VERIF_BUILD_OVERRIDE; sanitizer shards run without the sanitizer),
aggregates the gcov counters of the 22 extension modules per template line and writes
/verif/coverage/c_templates.txt (summary + uncovered line ranges per function).  Not a check: it tells
where the generators do not reach.
"""
import collections
import gzip
import json
import os
import shutil
import subprocess
import sys

VERIF = os.path.dirname(os.path.dirname(os.path.abspath(__file__)))
REPO = os.environ.get('VERIF_REPO', '/repo')
COV = os.path.join(VERIF, '.build', 'cov')
PY = '/venv/bin/python'


def build():
    shutil.rmtree(COV, ignore_errors=True)
    os.makedirs(COV)
    env = dict(os.environ, BTREES_VERIF='1', CFLAGS='--coverage -O0 -g', LDFLAGS='--coverage')
    env.pop('PURE_PYTHON', None)
    subprocess.run([PY, 'setup.py', '-q', 'build_ext', '-j16', '--build-lib', os.path.join(COV, 'lib'),
                    '--build-temp', os.path.join(COV, 'obj')], cwd=REPO, env=env, check=True,
                   stdout=subprocess.DEVNULL, stderr=subprocess.STDOUT)
    pkg = os.path.join(COV, 'lib', 'BTrees')
    for f in os.listdir(os.path.join(REPO, 'src', 'BTrees')):
        if f.endswith('.py'):
            shutil.copy2(os.path.join(REPO, 'src', 'BTrees', f), os.path.join(pkg, f))
    j = os.path.join(REPO, 'build')
    if os.path.isdir(j) and not os.listdir(j):
        os.rmdir(j)


def run_checks(ids):
    env = dict(os.environ, VERIF_BUILD_OVERRIDE=os.path.join(COV, 'lib'), VERIF_COV='1')
    for i in ids:
        p = subprocess.run([os.path.join(VERIF, 'check'), i, 'quick'], cwd=VERIF, env=env,
                           stdout=subprocess.PIPE, stderr=subprocess.STDOUT, text=True)
        print('%s rc=%d %s' % (i, p.returncode, p.stdout.strip().splitlines()[-1][:150] if p.stdout.strip() else ''))
        sys.stdout.flush()


def aggregate():
    hits = collections.defaultdict(lambda: collections.defaultdict(int))    # file -> line -> count
    func = {}                                                                # (file, line) -> function
    for dp, dn, fn in os.walk(os.path.join(COV, 'obj')):
        for f in fn:
            if not f.endswith('.gcda'):
                continue
            p = subprocess.run(['gcov', '--json-format', '--stdout', os.path.join(dp, f)], cwd=dp,
                               stdout=subprocess.PIPE, stderr=subprocess.DEVNULL)
            try:
                data = json.loads(p.stdout)
            except Exception:
                continue
            for fl in data.get('files', []):
                name = os.path.basename(fl['file'])
                if '/BTrees/' not in fl['file'] and not fl['file'].startswith('src/BTrees'):
                    continue
                for ln in fl['lines']:
                    hits[name][ln['line_number']] += ln['count']
                    if ln.get('function_name'):
                        func[(name, ln['line_number'])] = ln['function_name']
    return hits, func


def report(hits, func):
    out = []
    tot_l = tot_c = 0
    for name in sorted(hits):
        lines = hits[name]
        n, c = len(lines), sum(1 for v in lines.values() if v)
        tot_l += n
        tot_c += c
        out.append('%-28s %5d coverable lines, %5d executed (%.1f%%)' % (name, n, c, 100.0 * c / max(n, 1)))
    out.insert(0, 'TOTAL %d coverable lines, %d executed (%.1f%%)\n' % (tot_l, tot_c, 100.0 * tot_c / max(tot_l, 1)))
    out.append('\nUNCOVERED LINES (file: function: line ranges)')
    for name in sorted(hits):
        miss = sorted(l for l, v in hits[name].items() if not v)
        byf = collections.OrderedDict()
        for l in miss:
            byf.setdefault(func.get((name, l), '?'), []).append(l)
        for f, ls in byf.items():
            rng, start, prev = [], ls[0], ls[0]
            for l in ls[1:] + [None]:
                if l is None or l > prev + 2:
                    rng.append('%d' % start if start == prev else '%d-%d' % (start, prev))
                    start = l
                prev = l if l is not None else prev
            out.append('%s: %s: %s' % (name, f, ' '.join(rng)))
    os.makedirs(os.path.join(VERIF, 'coverage'), exist_ok=True)
    with open(os.path.join(VERIF, 'coverage', 'c_templates.txt'), 'w') as f:
        f.write('\n'.join(out) + '\n')
    print('\n'.join(out[:20]))


def py_pass(ids):
    """--py: line coverage of the pure-Python implementation (BTrees/_base.py etc.) under the quick checks, on
    the normal release build"""
    import glob
    d = os.path.join(VERIF, '.build', 'pycov')
    shutil.rmtree(d, ignore_errors=True)
    os.makedirs(d)
    env = dict(os.environ, VERIF_PYCOV=d)
    for i in ids:
        p = subprocess.run([os.path.join(VERIF, 'check'), i, 'quick'], cwd=VERIF, env=env,
                           stdout=subprocess.PIPE, stderr=subprocess.STDOUT, text=True)
        print('%s rc=%d %s' % (i, p.returncode, p.stdout.strip().splitlines()[-1][:150] if p.stdout.strip() else ''))
        sys.stdout.flush()
    hit = collections.defaultdict(set)
    src = {}
    for f in glob.glob(os.path.join(d, '*.json')):
        for fn, lines in json.load(open(f)).items():
            hit[os.path.basename(fn)].update(lines)
            src[os.path.basename(fn)] = fn
    out = []
    for name in sorted(hit):
        code = compile(open(src[name]).read(), src[name], 'exec')
        execl = {}

        def walk(co, qual):
            for _, _, ln in co.co_lines():
                if ln:
                    execl.setdefault(ln, qual)
            for c in co.co_consts:
                if hasattr(c, 'co_lines'):
                    walk(c, (qual + '.' if qual else '') + c.co_name)
        walk(code, '')
        miss = sorted(l for l in execl if l not in hit[name])
        out.append('%-20s %5d executable lines, %5d executed (%.1f%%)' % (name, len(execl), len(execl) - len(miss),
                                                                          100.0 * (len(execl) - len(miss)) / max(len(execl), 1)))
        byf = collections.OrderedDict()
        for l in miss:
            byf.setdefault(execl[l], []).append(l)
        for f, ls in byf.items():
            out.append('    %s: %s' % (f, ' '.join(map(str, ls))))
    with open(os.path.join(VERIF, 'coverage', 'python_impl.txt'), 'w') as f:
        f.write('\n'.join(out) + '\n')
    print('\n'.join(o for o in out if not o.startswith('    ')))
    shutil.rmtree(d, ignore_errors=True)


def main():
    if '--py' in sys.argv:
        sys.argv.remove('--py')
        ids = [a.upper() for a in sys.argv[1:]] or \
            [c['property_id'] for c in json.load(open(os.path.join(VERIF, 'MANIFEST.json')))['checks']]
        os.makedirs(os.path.join(VERIF, 'coverage'), exist_ok=True)
        return py_pass(ids)
    ids = [a.upper() for a in sys.argv[1:]]
    if not ids:
        ids = [c['property_id'] for c in json.load(open(os.path.join(VERIF, 'MANIFEST.json')))['checks']]
    build()
    run_checks(ids)
    hits, func = aggregate()
    report(hits, func)


if __name__ == '__main__':
    main()
