#!/venv/bin/python
"""Regenerate /verif/MANIFEST.json from the property modules that exist."""
import importlib
import json
import os
import sys

VERIF = os.path.dirname(os.path.dirname(os.path.abspath(__file__)))
sys.path.insert(0, VERIF)

NOT_BUILT = {}   # id -> reason, for properties deliberately not claimed


def main():
    props = [json.loads(line) for line in open(os.path.join(VERIF, 'properties.jsonl'))]
    checks, na = [], []
    for p in props:
        pid = p['id']
        path = os.path.join(VERIF, 'props', pid.lower() + '.py')
        if not os.path.exists(path) or pid in NOT_BUILT:
            na.append({'property_id': pid,
                       'reason': NOT_BUILT.get(pid, 'check not built yet (generated-input attack '
                                               'designed in DESIGN.md section 5; no machinery is '
                                               'registered for it at this commit)')})
            continue
        m = importlib.import_module('props.' + pid.lower())
        checks.append({
            'property_id': pid,
            'quick_cmd': './check %s quick' % pid,
            'thorough_cmd': './check %s thorough' % pid,
            'evidence_file': '/verif/evidence/%s.json' % pid,
            'replay_cmd_template': './check %s --replay {path}' % pid,
            'engine': 'vlib',
            'level_claimed': {'category': m.LEVEL, 'text': m.LEVEL_TEXT if hasattr(m, 'LEVEL_TEXT')
                              else m.RULE, 'design_ref': 'DESIGN.md section 5, ' + pid},
            'level_note': '; '.join(m.ASSUMPTIONS),
            'technique': m.TECHNIQUE,
        })
    man = {
        'version': 1,
        'setup_cmd': './setup.sh',
        'hooks': {
            'guard': 'BTREES_VERIF',
            'enable': 'vlib/build.py runs `BTREES_VERIF=1 /venv/bin/python setup.py build_ext '
                      '--build-lib /verif/.build/...` on /repo\'s working tree (setup.py then '
                      'defines the C macro BTREES_VERIF); with the variable unset the preprocessor '
                      'removes every added line',
            'baseline_off_cmd': 'cd /repo && env -u BTREES_VERIF /venv/bin/python setup.py -q '
                                'build_ext -i && env -u BTREES_VERIF /venv/bin/python -m pytest '
                                '-ra -q -p no:cacheprovider --timeout=900 '
                                '--continue-on-collection-errors',
            'source_commits': SOURCE_COMMITS,
            'add_only': True,
        },
        'engines': [{
            'name': 'vlib',
            'path': '/verif/vlib',
            'serves_properties': [c['property_id'] for c in checks],
            'kind_free_text': 'Hypothesis strategies + bounded-exhaustive enumerators over '
                              'JSON-serialisable cases, sharded over 16 worker processes with a '
                              'write-ahead case journal (crash capture + ddmin), reference model, '
                              'independent structure walker, mini-ZODB, sanitizer build variant',
        }],
        'checks': checks,
        'not_applicable': na,
        'notes': 'Every check: exit 0 = held on everything explored; exit 1 + VIOLATION line = '
                 'violation not listed in known_findings.json; exit 2 = harness error. '
                 'VERIF_SEED selects the Hypothesis seeds.',
    }
    with open(os.path.join(VERIF, 'MANIFEST.json'), 'w') as f:
        json.dump(man, f, indent=1)
        f.write('\n')
    print('claimed:', [c['property_id'] for c in checks])
    print('not_applicable:', [c['property_id'] for c in na])


SOURCE_COMMITS = ['82c67fa', 'a299639']

if __name__ == '__main__':
    main()
